"""C14 - retry makes exactly the allowed attempts and reports the true last outcome."""
import asyncio
import logging
import random

from haiway import ctx

from harness.decoys import decoyed
from harness.legs import cfg_text, gen_traces, leg_apalache, leg_m, leg_mutant, leg_r, leg_t_gen
from harness.vloop import swallowed_cancel, Falsy, VClock, VLoop

SPEC = "Retry"
MANIFEST = dict(
    text="Retry.tla: one call through the wrapper, the environment picks each invocation's outcome; the configuration "
         "(limit x catching form x delay form x sync/async) is chosen in Init. TLC checks the history-based statement "
         "of C14 (ExactAttempts, NoEarlyStop, TrueLastOutcome, NeverRetryBase, PausesRight) on every behaviour; every "
         "edge of the graph (= every outcome sequence for every configuration) is replayed into the real retry "
         "wrapper with a scripted function, exception identity and pauses (virtual clock / patched sleep) compared; "
         "the caller may be cancelled during a pause. Random scripts for limits up to 9 are validated by a generated "
         "trace module; the counting core RetryCore.tla is proved for EVERY limit by Apalache (inductive invariant "
         "=> CallsBound) and Retry.tla is checked by TLC to refine it; the decorator stacked with the others is "
         "checked on Stack.tla. What happens between the last attempt and the outcome is observed too (no pause, no timer, no time); half of the async callers swallowed a cancellation earlier.",
    technique="TLA+ spec + TLC exhaustive model checking; edge-complete graph replay into the implementation",
    design="5/C14")
INVS = ["TypeOK", "CallsBound", "ExactAttempts", "NoEarlyStop", "TrueLastOutcome", "CancelEndsCall", "NeverRetryBase", "PausesRight"]


class E1(Exception):
    def __bool__(self):
        return False    # exceptions are user objects too: nothing may decide by their truthiness

    def __eq__(self, other):
        return isinstance(other, BaseException)     # exceptions that compare equal to each other (identity is what counts)

    def __hash__(self):
        return 19


class E1Sub(E1):
    """... and one that cannot even be printed: whoever formats it (a log line) must not let that change the retrying"""

    def __str__(self):
        raise TypeError("this exception cannot be rendered")

    __repr__ = __str__


class E3(Exception):
    def __bool__(self):
        return False    # exceptions are user objects too: nothing may decide by their truthiness

    def __eq__(self, other):
        return isinstance(other, BaseException)     # exceptions that compare equal to each other (identity is what counts)

    def __hash__(self):
        return 19


class E2(Exception):
    def __bool__(self):
        return False    # exceptions are user objects too: nothing may decide by their truthiness

    def __eq__(self, other):
        return isinstance(other, BaseException)     # exceptions that compare equal to each other (identity is what counts)

    def __hash__(self):
        return 19


class Base(BaseException):
    def __bool__(self):
        return False    # exceptions are user objects too: nothing may decide by their truthiness

    def __eq__(self, other):
        return isinstance(other, BaseException)     # exceptions that compare equal to each other (identity is what counts)

    def __hash__(self):
        return 19


class _ScriptEnd(BaseException):
    pass


class CancelledE1(asyncio.CancelledError, E1Sub):
    """a cancellation that is also an instance of the caught classes (an application's own OperationCancelled)"""


EXC = {"caught": E1, "sub": E1Sub, "other": E3, "uncaught": E2, "cancelled": asyncio.CancelledError, "base": Base,
       "cancexc": CancelledE1}


class RetryDriver:
    """Each Attempt(o) extends the outcome script and re-executes one call through a freshly built
    wrapper; the scripted function raises a private BaseException when the script is exhausted,
    which shows that the wrapper did call again."""

    def reset(self, init):
        self.cfg = init["cfg"]
        self.script = []
        logging.getLogger().addHandler(logging.NullHandler())
        logging.getLogger().setLevel(logging.DEBUG)     # enabled (and swallowed by the null handler): what is logged is formatted

    def close(self):
        pass

    def _kwargs(self, delay_fn):
        c = self.cfg
        form, delay = c["form"], c["delay"]
        if form == "bare":
            return None
        catching = {"class": E1, "tuple": (E1, E3), "set": {E1, E3}, "related": (E1Sub, E1),
                    "tuple_with_cancelled": (E1, E3, asyncio.CancelledError), "all": Exception,
                    "empty_tuple": (), "empty_set": set()}[form]
        kw = dict(limit=c["limit"], catching=catching)
        if delay == "int":
            kw["delay"] = 2
        elif delay == "float":
            kw["delay"] = 3.0
        elif delay == "fn":
            kw["delay"] = delay_fn
        return kw

    def apply(self, name, args):
        from haiway import retry
        assert name in ("Attempt", "CancelInPause")
        cancel_in_pause = name == "CancelInPause"
        if not cancel_in_pause:
            self.script.append(args[0])
        script = list(self.script)
        objs = {}
        marks = []  # (time, timers/sleeps so far) at every invocation
        endmark = []  # the same, at the moment the caller has the outcome
        loop = VLoop()
        timers = [0]
        orig_call_at = loop.call_at

        def call_at(when, cb, *a, **k):
            timers[0] += 1
            return orig_call_at(when, cb, *a, **k)

        loop.call_at = call_at

        def delay_fn(attempt, exc):
            idx = next((k for k, (kind, o) in objs.items() if o is exc), -1)
            return 10 * attempt + idx

        kw = self._kwargs(delay_fn)
        sync = self.cfg["mode"] == "sync"
        with VClock(loop) as clock:
            warm = ["caught", "ok"]      # the call made through the same wrapper object before the one under test

            def body():
                if warm:
                    o = warm.pop(0)
                    if o == "ok":
                        return "warm"
                    raise EXC[o]("warm-up invocation")
                k = len(marks) + 1
                marks.append((loop.time(), len(clock.sleeps) if sync else timers[0]))
                if k > len(script):
                    raise _ScriptEnd()
                o = script[k - 1]
                if o == "ok":
                    objs[k] = ("val", Falsy(k))
                    return objs[k][1]
                objs[k] = ("exc", EXC[o](f"invocation {k}"))
                raise objs[k][1]

            if sync:
                def fn():
                    return body()
            else:
                async def fn():
                    return body()

            decoyed(fn)
            wrapped = retry(fn) if kw is None else retry(**kw)(fn)
            # first use of the wrapper object: one caught failure, then success - nothing of it may carry over
            try:
                first = wrapped() if sync else loop.run_coro(wrapped())
            except BaseException as e:  # noqa: BLE001
                first = e
            warm_ok = first == "warm" and not warm
            if self.cfg["form"] in ("empty_tuple", "empty_set"):
                # nothing is caught: the warm-up's one failure comes straight out, after a single invocation
                warm_ok = isinstance(first, E1) and warm == ["ok"]
                warm.clear()
            got = None
            try:
                if sync:
                    try:
                        # the call is made from inside a scope: what the wrapper logs goes through that scope
                        with ctx.scope("retrying %s"):
                            try:
                                got = ("val", wrapped())
                            finally:
                                endmark.append((loop.time(), len(clock.sleeps)))
                    except BaseException as e:  # noqa: BLE001
                        got = ("exc", e)
                else:
                    async def outer():
                        if len(script) % 2 == 0 and not cancel_in_pause:
                            await swallowed_cancel()      # the caller is a task that swallowed a cancellation earlier
                        try:
                            async with ctx.scope("retrying %s"):
                                try:
                                    return ("val", await wrapped())
                                finally:
                                    endmark.append((loop.time(), timers[0]))
                        except BaseException as e:  # noqa: BLE001
                            return ("exc", e)

                    if cancel_in_pause:
                        # run the scripted invocations; the wrapper then sits in its pause: cancel the caller there
                        task = loop.create_task(outer())
                        for _ in range(10000):
                            loop.quiesce()
                            if task.done() or len(marks) >= len(script):
                                break
                            nt = loop.next_timer()
                            if nt is None:
                                break
                            loop.advance(max(nt, loop.time()))
                        if not task.done():
                            task.cancel()
                            loop.run_all()
                        got = task.result() if task.done() and not task.cancelled() else ("exc", asyncio.CancelledError())
                        cancelled_by_caller = isinstance(got[1], asyncio.CancelledError) and got[0] == "exc"
                    else:
                        got = loop.run_coro(outer())
            finally:
                loop.shutdown()
        if not warm_ok:
            return dict(status=f"the first call through the wrapper (one caught failure, then success) gave {first!r}",
                        calls=-1, pauses=(), result=-1, tail=(0, 0))
        tail = (endmark[0][1] - marks[-1][1], endmark[0][0] - marks[-1][0]) if endmark and marks and not cancel_in_pause else (0, 0)
        if cancel_in_pause:
            calls = len(marks)
            pauses = tuple((marks[i + 1][1] - marks[i][1], marks[i + 1][0] - marks[i][0]) for i in range(len(marks) - 1))
            if got[0] == "exc" and isinstance(got[1], asyncio.CancelledError):
                return dict(status="raised", calls=calls, pauses=pauses, result=99, tail=tail)
            if got[0] == "exc" and isinstance(got[1], _ScriptEnd):
                return dict(status="running", calls=calls - 1, pauses=pauses[:calls - 1], result=0, tail=tail)   # it called again
            return dict(status="returned" if got[0] == "val" else "raised", calls=calls, pauses=pauses,
                        result=f"foreign:{type(got[1]).__name__}", tail=tail)
        ended = got[0] == "exc" and isinstance(got[1], _ScriptEnd)
        calls = len(marks) - 1 if ended else len(marks)
        pauses = tuple((marks[i + 1][1] - marks[i][1], marks[i + 1][0] - marks[i][0])
                       for i in range(len(marks) - 1))
        if not ended:
            pauses = pauses[:calls - 1] if calls else ()
        if ended:
            return dict(status="running", calls=calls, pauses=pauses, result=0, tail=tail)
        idx = next((k for k, (kind, o) in objs.items() if o is got[1] and kind == got[0]), None)
        if idx is None:
            res = f"foreign:{type(got[1]).__name__}:{got[1]}"
        else:
            res = idx
        return dict(status="returned" if got[0] == "val" else "raised", calls=calls, pauses=pauses, result=res, tail=tail)


def gen_trace(rnd, max_limit=9):
    """one call with a random configuration (limit up to 9) and a random outcome script, recorded from the real wrapper"""
    form = rnd.choice(["class", "tuple", "set", "tuple_with_cancelled", "related", "all", "bare", "empty_tuple", "empty_set"])
    cfg = dict(limit=1, form="bare", delay="none", mode=rnd.choice(["sync", "async"])) if form == "bare" else \
        dict(limit=rnd.randint(1, max_limit), form=form, delay=rnd.choice(["none", "int", "float", "fn"]),
             mode=rnd.choice(["sync", "async"]))
    d = RetryDriver()
    d.reset(dict(cfg=cfg))
    tr = [dict(ev="Init", init=dict(cfg=cfg))]
    weights = ["caught"] * 6 + ["sub"] * 3 + ["other"] * 3 + ["uncaught", "ok", "cancelled", "base", "cancexc"]
    for _ in range(cfg["limit"] + 2):
        if cfg["mode"] == "async" and cfg["delay"] != "none" and len(tr) > 1 and rnd.random() < 0.15:
            obs = d.apply("CancelInPause", ())
            tr.append(dict(ev="CancelInPause", args=[], obs=dict(status=obs["status"], calls=obs["calls"],
                                                                 pauses=[list(p) for p in obs["pauses"]], result=obs["result"], tail=list(obs["tail"]))))
            break
        o = rnd.choice(weights)
        obs = d.apply("Attempt", (o,))
        tr.append(dict(ev="Attempt", args=[o], obs=dict(status=obs["status"], calls=obs["calls"],
                                                        pauses=[list(p) for p in obs["pauses"]], result=obs["result"], tail=list(obs["tail"]))))
        if obs["status"] != "running":
            break
    return tr


TRACE_KW = dict(
    variables=["cfg", "calls", "attempt", "hist", "pauses", "status", "result", "obs"],
    constants=dict(MaxLimit=9, Bug='"none"'), config_vars=["cfg"], actions=dict(Attempt=1, CancelInPause=0),
    invariants=["CallsBound", "ExactAttempts", "NoEarlyStop", "TrueLastOutcome", "CancelEndsCall", "NeverRetryBase",
                "PausesRight"])


def run(rep, work, tier, seed):
    lim = 2 if tier == "quick" else 4
    c = dict(MaxLimit=lim, Bug="none")
    rep.extra["constants"] = c
    leg_m(rep, work, SPEC, f"mc_{tier}",
          cfg_text(dict(MaxLimit=lim + 1, Bug="none"), spec="Spec", invariants=INVS, properties=["RefinesCore"]),
          expect_actions=["Attempt", "CancelInPause"])
    # leg A: the counting core (RetryCore.tla) for EVERY limit - Init => IndInv, IndInv /\ Next => IndInv',
    # IndInv => CallsBound - by Apalache; TLC (above, RefinesCore) checks that Retry.tla refines that core
    leg_apalache(rep, work, "RetryCore", [("base", "Init", "IndInv", 0), ("step", "IndInv", "IndInv", 1),
                                          ("goal", "IndInv", "CallsBound", 0)])
    if tier == "thorough":
        for bug, inv in (("off_by_one", ["CallsBound", "ExactAttempts", "NoEarlyStop"]),
                         ("retry_base", ["NeverRetryBase", "ExactAttempts", "NoEarlyStop"]),
                         ("no_pause", ["PausesRight"])):
            leg_mutant(rep, work, SPEC, f"mutant_{bug}", cfg_text(dict(MaxLimit=2, Bug=bug), invariants=INVS), inv)
    leg_r(rep, work, SPEC, f"conf_{tier}", cfg_text(c, invariants=INVS), RetryDriver)
    # leg T: limits up to 9 with random outcome scripts, validated by the generated trace module
    rnd = random.Random(seed * 37 + 3)
    traces = gen_traces(rep, lambda: gen_trace(rnd), 300 if tier == "quick" else 4000)
    leg_t_gen(rep, work, SPEC, f"trace_{tier}", traces, **TRACE_KW)
    rep.assumptions += [
        "the wrapped function is a scripted double; outcomes are drawn from 7 classes (success, caught class, subclass "
        "of caught, second caught class, uncaught Exception, CancelledError, other BaseException)",
        "pauses are observed through the patched time.sleep (sync) and the virtual loop clock + timer count (async)",
        "a wrapped callable without __name__ (e.g. functools.partial) is outside the property as stated",
    ]
    # the decorator stacked with the others (Stack.tla): every layer acts on the layer below it
    from props.stack_common import stack_legs
    stack_legs(rep, work, tier, "retry")
    return rep.finish(exhaustive=True,
                      rule="every outcome sequence up to limit+1 invocations for every configuration (limit x catching "
                           "form x delay form x sync/async) is a path of the TLC graph; every edge is replayed into "
                           "the real retry wrapper")


def replay(rep, record):
    from harness.graph import parse_label
    if record.get("spec") == "Stack":
        from props.stack_common import replay_stack
        return replay_stack(record)
    d = RetryDriver()
    d.reset(record["init"])
    print("  config:", record["init"]["cfg"])
    for lab in record["path"]:
        name, args = parse_label(lab)
        print(f"  {lab} -> {d.apply(name, args)}")
