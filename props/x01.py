"""X01 - beyond the listed properties: haiway.utils.env (load_env, getenv_*) and the constant helpers (always / noop).

Not part of MANIFEST.json (which lists the twenty given properties); run with `tools/extras.sh` - the specification keeps
growing to cover the library's behaviour."""
import os
import tempfile

from haiway import always, async_always, async_noop, getenv_bool, getenv_float, getenv_int, getenv_str, load_env, noop

from harness.legs import cfg_text, leg_m, leg_mutant, leg_r
from harness.vloop import Falsy, VLoop

SPEC = "Env"
MANIFEST = None
INVS = []
PROPS = ["KeepsExisting", "OnlyAssigned", "Winner"]
TEXT = {1: "true", 2: "T", 3: "1", 4: "0", 5: "12", 6: "1.5", 7: "abc", 8: "v=w", 9: ""}
NAME = {"A": "HAIWAY_VERIF_ENV_A", "B": "HAIWAY_VERIF_ENV_B"}


class EnvDriver:
    def reset(self, init):
        self.saved = {n: os.environ.get(n) for n in NAME.values()}
        for k, n in NAME.items():
            v = init["env"][k]
            if v == 0:
                os.environ.pop(n, None)
            else:
                os.environ[n] = TEXT[v]
        self.file, self.override, self.exists = init["file"], init["override"], init["exists"]

    def _env(self):
        inv = {t: i for i, t in TEXT.items()}
        return {k: (0 if os.environ.get(n) is None else inv.get(os.environ[n], f"odd {os.environ[n]!r}")) for k, n in NAME.items()}

    def _render(self):
        out = []
        for ln in self.file:
            k, key, text = ln["k"], NAME[ln["key"]], TEXT[ln["val"]]
            out.append({"assign": f"{key}={text}", "spaced": f"{key}=  {text} \t", "comment": f"#{key}={text}",
                        "novalue": f"{key}=", "nokey": key, "blank": ""}[k])
        return "\n".join(out)          # (the last line has no line break of its own)

    def apply(self, name, args):
        if name == "Load":
            d = tempfile.mkdtemp(prefix="haiway_env_")
            path = os.path.join(d, "vars.env")
            try:
                if self.exists:
                    with open(path, "w") as f:
                        f.write(self._render())
                try:
                    load_env(path, override=self.override) if not self.override else load_env(path)   # True is the default
                except Exception as e:  # noqa: BLE001
                    return dict(k="load", env=self._env(), res=(f"raised {type(e).__name__}: {e}"[:100], 0))
            finally:
                if os.path.exists(path):
                    os.remove(path)
                os.rmdir(d)
            return dict(k="load", env=self._env(), res=("none", 0))
        if name == "Get":
            kind, key, hasdef = args
            fn = {"bool": getenv_bool, "int": getenv_int, "float": getenv_float, "str": getenv_str}[kind]
            n = NAME[key]
            try:
                if not hasdef:
                    r = fn(n)
                    res = ("none", 0) if r is None else ("val", self._val(kind, r))
                elif kind == "bool":
                    r1, r2 = fn(n, True), fn(n, False)
                    res = ("default", 0) if (r1 is True and r2 is False) else ("val", self._val(kind, r1)) if r1 is r2 else ("odd", 0)
                else:
                    dflt = {"int": 777, "float": 777.5, "str": "<default>"}[kind]
                    r = fn(n, dflt)
                    res = ("default", 0) if r is dflt or r == dflt else ("val", self._val(kind, r))
            except ValueError:
                res = ("error", 0)
            return dict(k="get", env=self._env(), res=res)
        if name == "Const":
            kind = args[0]
            v = Falsy("constant")
            if kind == "always":
                r = always(v)(1, v, a=2, value=3)
            elif kind == "noop":
                r = noop(1, v, a=2)
            else:
                loop = VLoop()
                try:
                    r = loop.run_coro(async_always(v)(1, v, a=2, value=3) if kind == "async_always" else async_noop(1, v, a=2))
                finally:
                    loop.shutdown()
            return dict(k="const", env=self._env(), res=("same" if r is v else "none" if r is None else f"odd {r!r}", 0))
        raise ValueError(name)

    def _val(self, kind, r):
        if kind == "bool":
            return 1 if r is True else 0 if r is False else f"odd {r!r}"
        if kind == "int":
            return r if type(r) is int else f"odd {r!r}"
        if kind == "float":
            return int(round(r * 10)) if type(r) is float else f"odd {r!r}"
        inv = {t: i for i, t in TEXT.items()}
        return inv.get(r, f"odd {r!r}")

    def close(self):
        for n, v in getattr(self, "saved", {}).items():
            if v is None:
                os.environ.pop(n, None)
            else:
                os.environ[n] = v


def run(rep, work, tier, seed):
    mc = dict(MaxLines=2 if tier == "quick" else 3, Bug="none")
    conf = dict(MaxLines=1 if tier == "quick" else 2, Bug="none")
    rep.extra["constants"] = dict(model=mc, conformance=conf)
    leg_m(rep, work, SPEC, f"mc_{tier}", cfg_text(mc, spec="Spec", properties=PROPS), expect_actions=["Load", "Get", "Const"],
          timeout=3000)
    if tier == "thorough":
        leg_mutant(rep, work, SPEC, "mutant_empty_counts_as_unset",
                   cfg_text(dict(MaxLines=1, Bug="empty_counts_as_unset"), spec="Spec", properties=PROPS), ["KeepsExisting"])
    leg_r(rep, work, SPEC, f"conf_{tier}", cfg_text(conf), EnvDriver)
    rep.assumptions += ["keys and values without surrounding whitespace in the key part (the loader documents that it does not "
                        "support them); two variables, eight value texts"]
    return rep.finish(exhaustive=True, rule="every file of up to MaxLines lines over six line kinds x override x existing / "
                                            "missing file x initial environment; every getenv form on every variable")


def replay(rep, record):
    from harness.graph import parse_label
    d = EnvDriver()
    d.reset(record["init"])
    try:
        for lab in record["path"]:
            name, args = parse_label(lab)
            print(f"  {lab} -> {d.apply(name, args)}")
    finally:
        d.close()
