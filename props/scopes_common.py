"""Driver shared by C01 / C03 (Scopes.tla): real scopes, updates and tasks behind gates."""
from harness.interp import Disp, World
from harness.legs import OPT


class ScopesDriver:
    def __init__(self, types=("A", "B")):
        self.types = types
        self.w = None

    def reset(self, init):
        self.w = World(types=self.types)
        self.n = len(init["pc"])
        self.nsid = 0
        self.nact = 0
        self.caught = {}
        self.w.start("1")

    def _caught(self):
        """what each task's catch-all caught last (identity-checked by World.classify against the raised objects)"""
        for ev in self.w.events[self._ev_seen:]:
            if ev[1] == "try" and ev[2] != "return":
                tag = ev[2]
                self.caught[ev[0]] = "E" if tag.startswith("body:") else "BaseE" if tag.startswith("bodybase:") else tag
        self._ev_seen = len(self.w.events)

    _ev_seen = 0

    def _obs(self):
        self._caught()
        out = []
        for t in range(1, self.n + 1):
            name = str(t)
            st = self.w.status(name)
            if st == "gate" and name in self.w.at:
                pr = self.w.at[name]
                out.append(dict(pc="gate", p={T: (pr[T], pr[T + "d"]) for T in self.types}, ms=pr["ms"], tg=pr["tg"],
                                exc=self.caught.get(name, "none")))
            else:
                pc = {"unborn": "unborn", "done": "done"}.get(st, st)
                out.append(dict(pc=pc, p={T: (0, 0) for T in self.types}, ms=0, tg=0, exc=self.caught.get(name, "none")))
        return tuple(out)

    def apply(self, name, args):
        w = self.w
        self.nact += 1
        if name == "Enter":
            t, kind, direct, disp = args
            direct = [tuple(p) for p in direct]
            disp = [tuple(p) for p in disp]
            if kind == "update":
                w.do(str(t), "update", direct)
            else:
                self.nsid += 1
                if kind == "sscope":
                    w.do(str(t), "sscope", self.nsid, direct, None)
                else:
                    # the disposable yields `disp`; alternate the shapes a disposable may return
                    if disp:
                        shape = ("list", "auto")[self.nact % 2]
                        disps = [Disp(w, f"d{self.nsid}", yields=disp, shape=shape)]
                    else:
                        disps = (None, [], [Disp(w, f"d{self.nsid}", shape="none")])[self.nact % 3]
                    w.do(str(t), "ascope", self.nsid, direct, disps, None)
        elif name == "Prepare":
            t, kind, direct = args
            if kind != "update":
                self.nsid += 1
            w.do(str(t), "prepare", kind, self.nsid if kind != "update" else 0, [tuple(p) for p in direct])
        elif name == "EnterPrepared":
            w.do(str(args[0]), "enterprep")
        elif name == "ReEnter":
            w.do(str(args[0]), "reenter")
        elif name == "GenEnter":
            w.do(str(args[0]), "genenter", [tuple(p) for p in args[1]])
        elif name == "GenCloseForeign":
            w.do(str(args[0]), "genclose")
        elif name in ("Leave", "End"):
            w.do(str(args[0]), "leave", "return")
        elif name == "Try":
            w.do(str(args[0]), "try")
        elif name == "Raise":
            w.do(str(args[0]), "leave", args[1])
        elif name == "Start":
            t, u, how = args
            w.do(str(t), "spawn" if how == "spawn" else "plainspawn", str(u))
        else:
            raise ValueError(name)
        o = self._obs()
        if w.loop.exceptions or w.disp_errors:
            return dict(loop_errors=[str(c.get("message")) for c in w.loop.exceptions] + list(w.disp_errors), obs=o)
        return o

    def close(self):
        if self.w is not None:
            self.w.close()


def gen_trace(rnd, ntasks=4, nops=28, max_depth=6):
    """a random program of up to `ntasks` interleaved tasks, each nesting scopes / updates up to depth 6, recorded from
    the real library; the generator mirrors only what it needs to avoid operations that would block (leaving an async
    scope whose spawned members are still alive)"""
    d = ScopesDriver(("A", "B"))
    d.reset(dict(pc=[0] * 4))  # the trace module has 4 task slots; `ntasks` only bounds how many are started
    tr = [dict(ev="Init", init={})]
    frames = {1: []}  # task -> list of (kind, sid)
    base_tg = {1: 0}
    grp = {}
    alive = {1}
    born = 1
    nsid = 0
    pairs = [("A", 1), ("A", 2), ("B", 1), ("B", 2)]
    prep = None   # the prepared block object: [state, kind, sid]

    def tg_of(t):
        for kind, sid in reversed(frames[t]):
            if kind == "ascope":
                return sid
        return base_tg[t]

    try:
        for _ in range(nops):
            t = rnd.choice(sorted(alive))
            ch = []
            if len(frames[t]) < max_depth:
                ch += ["enter"] * 4 + ["try"]
                if prep is not None and prep[0] == "ready":
                    ch += ["enterprep"] * 3
            if prep is None:
                ch += ["prepare"]
            elif prep[0] == "used" and prep[1] == "ascope":
                ch += ["reenter"]
            elif prep[0] == "used" and prep[1] == "update" and not OPT and \
                    any(f == ("update", 98) for fs in frames.values() for f in fs) and \
                    not any(f == ("update", 99) for fs in frames.values() for f in fs):
                # the prepared update object is in use and entered once more (refused only by an assert, so not in the
                # optimised pass)
                ch += ["reenter"] * 2
            tries = [i for i, (kind, sid) in enumerate(frames[t]) if kind == "try"]
            if tries and not any(kind == "ascope" and any(grp.get(u) == sid for u in alive)
                                 for kind, sid in frames[t][tries[-1]:]):
                ch += ["raise"] * 2
            if frames[t]:
                kind, sid = frames[t][-1]
                if kind != "ascope" or not any(grp.get(u) == sid for u in alive):
                    ch += ["leave"] * 3
            open_scopes = {sid for fs in frames.values() for kind, sid in fs}
            can_spawn = tg_of(t) == 0 or tg_of(t) in open_scopes
            if born < ntasks:
                ch += ["start"] * 2
            if not frames[t] and t != 1:
                ch += ["end"]
            if not ch:
                continue
            c = rnd.choice(ch)
            if c == "enter":
                kind = rnd.choice(["ascope", "sscope", "update"])
                sup = [list(rnd.choice(pairs)) for _ in range(rnd.choice([0, 1, 1, 2, 3]))]
                k = rnd.randint(0, len(sup)) if kind == "ascope" else len(sup)
                args = [t, kind, sup[:k], sup[k:]]
                if kind != "update":
                    nsid += 1
                frames[t].append((kind, nsid if kind != "update" else 0))
                name = "Enter"
            elif c == "prepare":
                kind = rnd.choice(["ascope", "sscope", "update"])
                sup = [list(rnd.choice(pairs)) for _ in range(rnd.choice([0, 1, 1]))]
                if kind != "update":
                    nsid += 1
                prep = ["ready", kind, nsid if kind != "update" else 98]
                name, args = "Prepare", [t, kind, sup]
            elif c == "enterprep":
                prep[0] = "used"
                frames[t].append((prep[1], prep[2]))
                name, args = "EnterPrepared", [t]
            elif c == "reenter":
                name, args = "ReEnter", [t]
            elif c == "leave":
                frames[t].pop()
                name, args = "Leave", [t]
            elif c == "try":
                frames[t].append(("try", 0))
                name, args = "Try", [t]
            elif c == "raise":
                del frames[t][tries[-1]:]
                name, args = "Raise", [t, rnd.choice(["E", "BaseE"])]
            elif c == "start":
                born += 1
                how = rnd.choice(["spawn", "plain"]) if can_spawn else "plain"
                base_tg[born] = tg_of(t)
                grp[born] = tg_of(t) if how == "spawn" else 0
                frames[born] = []
                alive.add(born)
                name, args = "Start", [t, born, how]
            else:
                alive.discard(t)
                name, args = "End", [t]
            nev = len(d.w.events)
            o = d.apply(name, tuple(tuple(tuple(p) for p in a) if isinstance(a, list) else a for a in args))
            if name == "ReEnter" and any(len(ev) > 1 and ev[1] == "reentered" for ev in d.w.events[nev:]):
                frames[t].append(("update", 99))       # it was let in: a block of its own from here on
            if isinstance(o, dict):  # loop errors reported by the driver: keep them visible
                o = o["obs"]
            tr.append(dict(ev=name, args=args, obs=[dict(x, p={k: list(v) for k, v in x["p"].items()}) for x in o]))
    finally:
        d.close()
    return tr


def shared_update_traces():
    """directed programs around ONE prepared update object in use twice at the same time: by two tasks (each leaving first
    in turn) and by one task nested in itself; recorded from the real library like the random ones"""
    progs = []
    for sup in ([["A", 1]], [["A", 2], ["B", 2]]):
        for first in (1, 2):
            progs.append([("Enter", [1, "sscope", [["A", 2], ["B", 1]], []]), ("Prepare", [1, "update", sup]), ("EnterPrepared", [1]),
                          ("Start", [1, 2, "plain"]), ("Enter", [2, "update", [["B", 2]], []]), ("ReEnter", [2]),
                          ("Leave", [first]), ("Leave", [3 - first]), ("Leave", [2]), ("End", [2]), ("Leave", [1])])
        progs.append([("Prepare", [1, "update", sup]), ("Enter", [1, "update", [["B", 1]], []]), ("EnterPrepared", [1]),
                      ("ReEnter", [1]), ("Leave", [1]), ("Leave", [1]), ("Leave", [1])])
    out = []
    for prog in progs:
        d = ScopesDriver(("A", "B"))
        d.reset(dict(pc=[0] * 4))
        tr = [dict(ev="Init", init={})]
        depth = {1: 0, 2: 0}
        try:
            for name, args in prog:
                t = args[0]
                if name == "Leave" and depth[t] == 0:
                    continue        # (the second entering was refused: there is one block less to leave)
                nev = len(d.w.events)
                try:
                    o = d.apply(name, tuple(tuple(tuple(p) for p in a) if isinstance(a, list) else a for a in args))
                except Exception as e:  # noqa: BLE001  - a task the program still needs is gone: no specification step fits
                    tr.append(dict(ev=name, args=args, obs=[dict(pc=f"the program could not continue: {e!r}"[:120], p={}, ms=0, tg=0,
                                                                 exc="none")]))
                    break
                if name in ("Enter", "EnterPrepared"):
                    depth[t] += 1
                elif name == "ReEnter" and any(len(ev) > 1 and ev[1] == "reentered" for ev in d.w.events[nev:]):
                    depth[t] += 1
                elif name == "Leave":
                    depth[t] -= 1
                if isinstance(o, dict):
                    o = o["obs"]
                tr.append(dict(ev=name, args=args, obs=[dict(x, p={k: list(v) for k, v in x["p"].items()}) for x in o]))
        finally:
            d.close()
        out.append(tr)
    return out


TRACE_KW = dict(
    variables=["st", "on", "ms", "tg", "frames", "base", "pc", "grp", "caught", "prep", "nsid", "nops", "actor", "obs"],
    constants=dict(NTasks=4, Types='{"A", "B"}', Vals="{1, 2}", MaxDepth=6, MaxOps=100000, SupKind='"tiny"', Bug='"none"', Prep="TRUE"),
    config_vars=[], actions=dict(Enter=4, Leave=1, Start=3, End=1, Try=1, Raise=2, Prepare=3, EnterPrepared=1, ReEnter=1, GenEnter=2, GenCloseForeign=1), invariants=["LexicalLookup", "ScopeIdsFresh"])
