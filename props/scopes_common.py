"""Driver shared by C01 / C03 (Scopes.tla): real scopes, updates and tasks behind gates."""
from harness.interp import Disp, World


class ScopesDriver:
    def __init__(self, types=("A", "B")):
        self.types = types
        self.w = None

    def reset(self, init):
        self.w = World(types=self.types)
        self.n = len(init["pc"])
        self.nsid = 0
        self.nact = 0
        self.w.start("1")

    def _obs(self):
        out = []
        for t in range(1, self.n + 1):
            name = str(t)
            st = self.w.status(name)
            if st == "gate" and name in self.w.at:
                pr = self.w.at[name]
                out.append(dict(pc="gate", p={T: (pr[T], pr[T + "d"]) for T in self.types}, ms=pr["ms"], tg=pr["tg"]))
            else:
                pc = {"unborn": "unborn", "done": "done"}.get(st, st)
                out.append(dict(pc=pc, p={T: (0, 0) for T in self.types}, ms=0, tg=0))
        return tuple(out)

    def apply(self, name, args):
        w = self.w
        self.nact += 1
        if name == "Enter":
            t, kind, direct, disp = args
            direct = [tuple(p) for p in direct]
            disp = [tuple(p) for p in disp]
            if kind == "update":
                w.do(str(t), "update", direct)
            else:
                self.nsid += 1
                if kind == "sscope":
                    w.do(str(t), "sscope", self.nsid, direct, None)
                else:
                    # the disposable yields `disp`; alternate the shapes a disposable may return
                    if disp:
                        shape = ("list", "auto")[self.nact % 2]
                        disps = [Disp(w, f"d{self.nsid}", yields=disp, shape=shape)]
                    else:
                        disps = (None, [], [Disp(w, f"d{self.nsid}", shape="none")])[self.nact % 3]
                    w.do(str(t), "ascope", self.nsid, direct, disps, None)
        elif name in ("Leave", "End"):
            w.do(str(args[0]), "leave", "return")
        elif name == "Start":
            t, u, how = args
            w.do(str(t), "spawn" if how == "spawn" else "plainspawn", str(u))
        else:
            raise ValueError(name)
        o = self._obs()
        if w.loop.exceptions:
            return dict(loop_errors=[str(c.get("message")) for c in w.loop.exceptions], obs=o)
        return o

    def close(self):
        if self.w is not None:
            self.w.close()
