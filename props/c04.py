"""C04 - State instances are immutable values with copy-on-update semantics."""
import copy
from collections.abc import Mapping, Sequence, Set
from typing import Any

from haiway import MISSING, Missing, State

import random

from harness.legs import cfg_text, gen_traces, leg_m, leg_mutant, leg_r, leg_t_gen

SPEC = "Heap"
MANIFEST = dict(
    text="Heap.tla models a heap of State instances of a class family (flat with defaults, a subclass, container "
         "attributes built from external list/set/dict, nested state, specialised and unspecialised generic, "
         "Missing-typed attribute) that changes only by allocation; the environment constructs, assigns/deletes existing "
         "and new attributes, mutates the containers it passed in, derives updated copies (valid / invalid / unknown "
         "name), copies, deep-copies and compares. TLC checks Frozen and DerivedRight (action properties), PokeRejected, "
         "EqExact (== and != in both operand orders agree with 'same class and equal attributes'), EqReflexive, "
         "EqTransitive over all operation histories within the bounds; every edge is replayed on real instances and "
         "after EVERY operation the value of EVERY live instance is projected (attribute reads + as_dict) and compared. "
         "Leg T: random histories of 30 operations over 10 instances (copies of updated copies, updates of deep copies, "
         "comparisons across the whole heap) recorded from real instances are validated against Heap.tla by a generated "
         "trace module, with the invariants evaluated at every step.",
    technique="TLA+ spec + TLC exhaustive model checking of operation histories; edge-complete graph replay into the "
              "implementation with full heap projection after every step; trace validation of random histories against the spec",
    design="5/C04")
INVS = ["TypeOK", "PokeRejected", "EqExact", "EqTruth", "EqReflexive", "EqTransitive"]
PROPS = ["Frozen", "DerivedRight"]
ALL = ["flat", "flat2", "cont", "deep", "nest", "gen", "genw", "genraw", "miss", "flag", "rng", "anyl"]


class Flat(State):
    a: int = 1
    b: str


class Flat2(Flat):
    pass


class Cont(State):
    xs: Sequence[int]
    ss: Set[int]
    m: Mapping[str, int]


class Deep(State):
    rows: Sequence[Sequence[int]]
    idx: Mapping[str, Sequence[int]]


class Nest(State):
    inner: Flat
    opt: int | None = None


class G[T](State):
    v: T


class Miss(State):
    w: int | Missing = MISSING
    n: int = 1


class Flag(State):
    value: bool | int


class Rng(State):
    r: range        # a sequence that is not a tuple and must stay what it is (copies included)


def make(cls, v):
    """-> (instance, external containers or None)"""
    if cls == "flat":
        return Flat(a=v, b="x"), None
    if cls == "flat2":
        return Flat2(a=v, b="x"), None
    if cls == "cont":
        ext = (list(range(1, v + 1)), set(range(1, v + 1)), {f"k{i}": i for i in range(1, v + 1)})
        return Cont(xs=ext[0], ss=ext[1], m=ext[2]), ext
    if cls == "deep":
        # immutable on top (a tuple), mutable below: the inner lists are what gets mutated later
        ext = (tuple(list(range(1, v + 1)) for _ in range(2)), {"k": list(range(1, v + 1))})
        return Deep(rows=ext[0], idx=ext[1]), ext
    if cls == "nest":
        return Nest(inner=Flat(a=v, b="x")), None
    if cls == "gen":
        return G[int](v=v), None
    if cls == "genw":
        return G[int | None](v=v), None     # a wider specialisation of the same generic: another class, never equal to G[int]'s
    if cls == "genraw":
        return G(v=v), None
    if cls == "miss":
        return Miss(w=MISSING if v == 0 else v), None
    if cls == "flag":
        return Flag(value=1 if v == 1 else True), None
    if cls == "rng":
        return Rng(r=range(v)), None
    if cls == "anyl":
        return G(v=list(range(1, v + 1))), None      # a list held under Any: kept as given, and a copy equals it
    raise ValueError(cls)


def value_of(cls, o):
    """project a real instance onto the specification's value summary (through attribute reads and as_dict)"""
    d = o.as_dict()
    if cls in ("flat", "flat2"):
        ok = o.b == "x" and d == {"a": o.a, "b": "x"} and type(o) is (Flat if cls == "flat" else Flat2)
        return o.a if ok else f"odd {d!r}"
    if cls == "cont":
        n = len(o.xs)
        ok = tuple(o.xs) == tuple(range(1, n + 1)) and set(o.ss) == set(range(1, n + 1)) and \
            dict(o.m) == {f"k{i}": i for i in range(1, n + 1)} and set(d) == {"xs", "ss", "m"}
        return n if ok else f"odd {d!r}"
    if cls == "deep":
        n = len(o.rows[0])
        want = tuple(range(1, n + 1))
        ok = len(o.rows) == 2 and all(tuple(r) == want for r in o.rows) and set(o.idx) == {"k"} and tuple(o.idx["k"]) == want
        return n if ok else f"odd {d!r}"
    if cls == "nest":
        ok = o.opt is None and isinstance(o.inner, Flat) and o.inner.b == "x"
        return o.inner.a if ok else f"odd {d!r}"
    if cls in ("gen", "genraw", "genw"):
        want = {"gen": G[int], "genraw": G, "genw": G[int | None]}[cls]
        return o.v if d == {"v": o.v} and type(o) is want else f"odd {d!r} of {type(o).__qualname__}"
    if cls == "miss":
        ok = o.n == 1 and (("w" not in d) if o.w is MISSING else d.get("w") == o.w)
        return (0 if o.w is MISSING else o.w) if ok else f"odd {d!r}"
    if cls == "flag":
        x = o.value
        return 1 if (type(x) is int and x == 1) else 2 if x is True else f"odd {d!r}"
    if cls == "rng":
        return len(o.r) if type(o.r) is range and o.r == range(len(o.r)) and d == {"r": o.r} else f"odd {d!r}"
    if cls == "anyl":
        return len(o.v) if type(o.v) is list and o.v == list(range(1, len(o.v) + 1)) else f"odd {d!r}"
    raise ValueError(cls)


ATTR = {"rng": "r", "anyl": "v", "flat": "a", "flat2": "a", "cont": "xs", "deep": "rows", "nest": "inner", "gen": "v", "genw": "v", "genraw": "v", "miss": "w",
        "flag": "value"}


class HeapDriver:
    def reset(self, init):
        self.objs = []  # (cls, instance, ext)

    def _o(self, *res):
        def val(c, o):
            try:
                return value_of(c, o)
            except Exception as e:  # noqa: BLE001  - the instance is no longer what it was constructed as
                return f"odd {type(e).__name__}: {e}"[:100]
        return dict(res=tuple(res), objs=tuple((c, val(c, o)) for c, o, _ in self.objs))

    def apply(self, name, args):
        if name == "Construct":
            o, ext = make(args[0], args[1])
            self.objs.append((args[0], o, ext))
            return self._o("new", len(self.objs))
        cls, o, ext = self.objs[args[0] - 1]
        if name == "Poke":
            how = args[1]
            if how.endswith("dunder"):
                # the special attributes through which an instance could be swapped out wholesale
                took = []
                for attr, val in (("__dict__", {"a": 7, "xs": [9], "v": 9, "w": 9, "value": 9}), ("__class__", Flag),
                                  ("__verif__", 1), ("__slots__", ()), ("__orig_class__", G[str])):
                    try:
                        if how.startswith("set"):
                            setattr(o, attr, val)
                        else:
                            delattr(o, attr)
                        took.append(attr)
                    except Exception:  # noqa: BLE001
                        pass
                return self._o(how, "accepted " + ",".join(took) if took else "AttributeError")
            attr = ATTR[cls] if how.endswith("existing") else "zzz_new"
            try:
                if how.startswith("set"):
                    setattr(o, attr, 5)
                else:
                    delattr(o, attr)
                return self._o(how, "accepted")
            except Exception:  # noqa: BLE001  - rejected; the property does not say with which exception type
                return self._o(how, "AttributeError")
        if name == "EditDict":
            d = o.as_dict()
            for k in list(d):
                d[k] = "overwritten"
            d["zzz_added"] = 1
            if d:
                del d[next(iter(d))]
            return self._o("dict_edited", args[0])
        if name == "MutateInput" and cls == "deep":
            k = len(ext[0][0]) + 1
            for row in ext[0]:
                row.append(k)
            ext[1]["k"].append(k)
            return self._o("mutated", args[0])
        if name == "MutateInput":
            k = len(ext[0]) + 1
            ext[0].append(k)
            ext[1].add(k)
            ext[2][f"k{k}"] = k
            return self._o("mutated", args[0])
        if name == "Updated":
            how = args[1]
            cur = value_of(cls, o)
            nv = (1 if cur == 0 else 0) if cls == "miss" else (2 if cur == 1 else 1)
            try:
                if how == "unknown":
                    r = o.updated(zzz_unknown=1)
                elif how == "invalid_eq":
                    r = self._invalid_eq(cls, o, cur)
                elif how == "invalid":
                    r = self._invalid(cls, o)
                else:
                    r = self._valid(cls, o, nv)
            except Exception:  # noqa: BLE001  - refused, whatever the exception type
                return self._o("updated", "rejected")
            self.objs.append((cls, r, None))
            return self._o("updated", len(self.objs))
        if name == "Copy":
            deep = args[1]
            try:
                r = copy.deepcopy(o) if deep else copy.copy(o)
            except Exception as e:  # noqa: BLE001
                return self._o("deepcopy" if deep else "copy", f"{type(e).__name__}: {e}"[:120])
            self.objs.append((cls, r, None))
            same = (r == o) and (o == r) and type(r) is type(o)
            return self._o("deepcopy" if deep else "copy", "equal" if same else "different")
        if name == "Compare":
            other = self.objs[args[1] - 1][1]
            return self._o("eq", bool(o == other), bool(other == o), bool(o != other), bool(other != o), args[0], args[1])
        raise ValueError(name)

    def _valid(self, cls, o, nv):
        if cls in ("flat", "flat2"):
            return o.updated(a=nv)
        if cls == "cont":
            return o.updated(xs=list(range(1, nv + 1)), ss=set(range(1, nv + 1)), m={f"k{i}": i for i in range(1, nv + 1)})
        if cls == "deep":
            return o.updated(rows=tuple(list(range(1, nv + 1)) for _ in range(2)), idx={"k": list(range(1, nv + 1))})
        if cls == "nest":
            return o.updated(inner=Flat(a=nv, b="x"))
        if cls in ("gen", "genraw", "genw"):
            return o.updated(v=nv)
        if cls == "flag":
            return o.updated(value=1 if nv == 1 else True)
        if cls == "rng":
            return o.updated(r=range(nv))
        if cls == "anyl":
            return o.updated(v=list(range(1, nv + 1)))
        return o.updated(w=MISSING if nv == 0 else nv)

    def _invalid_eq(self, cls, o, cur):
        """a replacement that compares equal to the current value and does not conform"""
        if cls == "cont":
            return o.updated(xs=tuple(float(i) for i in range(1, cur + 1)))
        if cls == "deep":
            return o.updated(rows=tuple(tuple(float(i) for i in range(1, cur + 1)) for _ in range(2)))
        return o.updated(**{ATTR[cls]: float(cur)})

    def _invalid(self, cls, o):
        if cls in ("genraw", "anyl"):
            # every value is valid for an unspecialised generic (Any): there is no invalid update
            raise TypeError("no invalid value exists for Any")
        return o.updated(**{ATTR[cls]: object()})

    def close(self):
        pass


def gen_trace(rnd, nobjs=10, nops=30):
    """a random history of up to 30 operations over up to 10 instances of every class (copies of updated copies, updates
    of deep copies, comparisons across the whole heap), recorded from real instances with the whole heap projected after
    every step"""
    d = HeapDriver()
    d.reset({})
    tr = [dict(ev="Init", init={})]
    heap = []  # (cls, val, ext) mirror of what was REQUESTED (the enabling conditions of the specification)
    for _ in range(nops):
        ch = []
        if len(heap) < nobjs:
            ch += [("Construct",)] * 3
        if heap:
            ch += [("Poke",), ("MutateInput",), ("Updated",), ("Updated",), ("Copy",), ("Compare",), ("Compare",), ("EditDict",)]
        name = rnd.choice(ch)[0]
        if name == "Construct":
            c = rnd.choice(ALL)
            v = rnd.choice([0, 1]) if c == "miss" else rnd.choice([0, 1, 2]) if c == "cont" else rnd.choice([1, 2])
            args = [c, v]
            heap.append([c, v, v if c in ("cont", "deep") else 0])
        else:
            i = rnd.randrange(len(heap)) + 1
            c, v, ext = heap[i - 1]
            if name == "Poke":
                args = [i, rnd.choice(["set_existing", "set_new", "del_existing", "del_new", "set_dunder", "del_dunder"])]
            elif name == "EditDict":
                args = [i]
            elif name == "MutateInput":
                if c not in ("cont", "deep") or ext == 0:
                    continue
                args = [i]
                heap[i - 1][2] += 1
            elif name == "Updated":
                how = rnd.choice(["valid", "valid", "invalid", "invalid_eq", "unknown"])
                has_eq = c in ("flat", "flat2", "gen", "genw", "deep") or (c in ("miss", "cont") and v != 0)
                if (how == "invalid_eq" and not has_eq) or (how in ("valid", "unknown") and len(heap) >= nobjs):
                    continue
                args = [i, how]
                if how in ("valid", "unknown"):
                    nv = v if how == "unknown" else ((1 if v == 0 else 0) if c == "miss" else (2 if v == 1 else 1))
                    heap.append([c, nv, 0])
            elif name == "Copy":
                if len(heap) >= nobjs:
                    continue
                args = [i, rnd.random() < 0.5]
                heap.append([c, v, 0])
            else:
                args = [i, rnd.randrange(len(heap)) + 1]
        o = d.apply(name, tuple(args))
        tr.append(dict(ev=name, args=args, obs=dict(res=list(o["res"]), objs=[list(x) for x in o["objs"]])))
    return tr


TRACE_KW = dict(
    variables=["heap", "nops", "obs"],
    constants=dict(MaxObjs=10, MaxOps=100000, Bug='"none"',
                   Classes='{"flat", "flat2", "cont", "deep", "nest", "gen", "genw", "genraw", "miss", "flag", "rng", "anyl"}'),
    config_vars=[], actions=dict(Construct=2, Poke=2, MutateInput=1, EditDict=1, Updated=2, Copy=2, Compare=2),
    invariants=["PokeRejected", "EqExact", "EqTruth"])


def run(rep, work, tier, seed):
    if tier == "quick":
        mc = dict(MaxObjs=3, MaxOps=4, Classes=ALL, Bug="none")
        conf = dict(MaxObjs=3, MaxOps=3, Classes=ALL, Bug="none")
    else:
        mc = dict(MaxObjs=3, MaxOps=5, Classes=["flat", "flat2", "cont", "gen", "genraw", "miss"], Bug="none")
        conf = dict(MaxObjs=3, MaxOps=4, Classes=ALL, Bug="none")
    rep.extra["constants"] = dict(model=mc, conformance=conf)
    leg_m(rep, work, SPEC, f"mc_{tier}", cfg_text(mc, spec="Spec", invariants=INVS, properties=PROPS),
          expect_actions=["Construct", "Poke", "MutateInput", "EditDict", "Updated", "Copy", "Compare"], timeout=3000)
    if tier == "thorough":
        small = dict(MaxObjs=3, MaxOps=3, Classes=["flat", "cont"])
        for bug, inv in (("setattr_allowed", ["Frozen", "PokeRejected"]), ("shares_input", ["Frozen"]),
                         ("update_in_place", ["Frozen"]), ("eq_ignores_class", ["EqTruth"])):
            leg_mutant(rep, work, SPEC, f"mutant_{bug}",
                       cfg_text(dict(small, Classes=["flat", "flat2", "cont"], Bug=bug), spec="Spec", invariants=INVS,
                                properties=PROPS), inv + ["EqTransitive"])
    leg_r(rep, work, SPEC, f"conf_{tier}", cfg_text(conf, invariants=INVS), HeapDriver)
    # leg T: random histories (30 operations, 10 instances) validated by a trace module generated from Heap.tla
    rnd = random.Random(seed * 59 + 4)
    traces = gen_traces(rep, lambda: gen_trace(rnd), 200 if tier == "quick" else 3000)
    leg_t_gen(rep, work, SPEC, f"trace_{tier}", traces, **TRACE_KW)
    rep.assumptions += [
        "object.__setattr__(o, ...) and in-place mutation of o.__dict__ are outside the property (assigning o.__dict__, "
        "o.__class__ or another special attribute is an assignment like any other and is tried); NaN excluded",
        "class family: Flat (default + required attribute), Flat2 (subclass), Cont (Sequence/Set/Mapping built from "
        "external list/set/dict), Nest (nested state, Optional), G[int] and unspecialised G, Miss (Missing-typed default)",
    ]
    return rep.finish(exhaustive=True,
                      rule="all operation histories up to MaxOps over up to MaxObjs instances of the class family; every edge "
                           "replayed with the whole heap projected after every step")


def replay(rep, record):
    from harness.graph import parse_label
    d = HeapDriver()
    d.reset(record["init"])
    for lab in record["path"]:
        name, args = parse_label(lab)
        print(f"  {lab} -> {d.apply(name, args)}")
