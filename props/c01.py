"""C01 - scope state lookup follows lexical nesting (innermost supplier wins)."""
import random

from harness.legs import cfg_text, gen_traces, leg_m, leg_mutant, leg_r, leg_t_gen
from props.scopes_common import TRACE_KW, ScopesDriver, gen_trace

SPEC = "Scopes"
MANIFEST = dict(
    text="(Also: block objects PREPARED in one place - ctx.scope(...) / ctx.updated(...) evaluated, the object kept - and "
         "entered in another, a second entering of an async scope object refused: Prepare / EnterPrepared / ReEnter.) "
         "Scopes.tla models per-task context triples (state environment, metrics scope, task group) with a frame "
         "stack; LexicalLookup is stated independently over the frames and the inherited snapshot (an environment-"
         "stack interpreter of the property in TLA+), Restored and Isolation as action properties. TLC enumerates all "
         "programs of nested async scopes / sync scopes / updates within depth and operation bounds with every "
         "supplied sequence from the alphabet (nothing, one type, the same type twice, two types; direct state vs "
         "state yielded by a disposable); every edge is replayed into real `ctx.scope` / `ctx.updated` blocks behind "
         "gates and after EVERY action the task re-probes ctx.state(T) and ctx.state(T, default=x) for every type.",
    technique="TLA+ spec + TLC exhaustive model checking; edge-complete graph replay into the implementation through a "
              "gated interpreter of scope programs",
    design="5/C01")
INVS = ["TypeOK", "LexicalLookup", "ScopeIdsFresh"]
PROPS = ["Isolation", "Restored"]
ACTIONS = ["Enter", "Leave", "Try", "Raise"]


def run(rep, work, tier, seed):
    if tier == "quick":
        mc = dict(NTasks=1, Types=["A", "B"], Vals=[1, 2], MaxDepth=3, MaxOps=4, SupKind="small", Prep=False, Bug="none")
        conf = dict(NTasks=1, Types=["A", "B"], Vals=[1, 2], MaxDepth=3, MaxOps=4, SupKind="tiny", Prep=False, Bug="none")
        types = ("A", "B")
    else:
        mc = dict(NTasks=1, Types=["A", "A2", "B"], Vals=[1, 2], MaxDepth=3, MaxOps=4, SupKind="small", Prep=False, Bug="none")
        conf = dict(NTasks=1, Types=["A", "A2", "B"], Vals=[1, 2], MaxDepth=4, MaxOps=5, SupKind="tiny", Prep=False, Bug="none")
        types = ("A", "A2", "B")
    rep.extra["constants"] = dict(model=mc, conformance=conf)
    leg_m(rep, work, SPEC, f"mc_{tier}", cfg_text(mc, spec="Spec", invariants=INVS, properties=PROPS),
          expect_actions=ACTIONS, timeout=3000)
    if tier == "thorough":
        small = dict(NTasks=1, Types=["A", "B"], Vals=[1, 2], MaxDepth=2, MaxOps=3, SupKind="tiny", Prep=False)
        leg_mutant(rep, work, SPEC, "mutant_first_wins", cfg_text(dict(small, Bug="first_wins"), invariants=INVS),
                   ["LexicalLookup"])
        leg_mutant(rep, work, SPEC, "mutant_no_restore",
                   cfg_text(dict(small, Bug="no_restore"), spec="Spec", invariants=INVS, properties=PROPS),
                   ["LexicalLookup", "Restored"])
    leg_r(rep, work, SPEC, f"conf_{tier}", cfg_text(conf, invariants=INVS), lambda: ScopesDriver(types), world=True)
    # block objects prepared in one place and entered in another (Prepare / EnterPrepared / ReEnter): what is visible inside
    # is the entering place's state plus what the block supplies
    prep = dict(NTasks=1, Types=["A", "B"], Vals=[1, 2], MaxDepth=2 if tier == "quick" else 3, MaxOps=4 if tier == "quick" else 5,
                SupKind="tiny", Prep=True, Bug="none")
    leg_m(rep, work, SPEC, f"prep_mc_{tier}", cfg_text(prep, spec="Spec", invariants=INVS, properties=PROPS),
          expect_actions=["Prepare", "EnterPrepared", "ReEnter"], timeout=3000)
    if tier == "thorough":
        leg_mutant(rep, work, SPEC, "mutant_bound_where_made", cfg_text(dict(prep, MaxDepth=2, MaxOps=4, Bug="bound_where_made"),
                                                                         invariants=INVS), ["LexicalLookup"])
    leg_r(rep, work, SPEC, f"prep_conf_{tier}", cfg_text(prep, invariants=INVS), lambda: ScopesDriver(("A", "B")), world=True)
    # state yielded by SEVERAL disposables of one scope (later declared wins, whatever the order in which they finished
    # entering): ScopeLife.tla's DisposableStateVisible, replayed here on two and three disposables
    from props.scopelife_common import ScopeLifeDriver
    for nd in (2, 3):
        life = dict(ND=nd, NC=0, Behaviours=["ok", "susp"], Bug="none")
        leg_r(rep, work, "ScopeLife", f"life_d{nd}_{tier}", cfg_text(life, invariants=["TypeOK", "DisposableStateVisible"]),
              ScopeLifeDriver, world=True)
    # leg T: random programs beyond the exhaustive bound (depth 6, ~28 operations, 1 task(s)) validated by a trace
    # module generated from Scopes.tla
    rnd = random.Random(seed * 13 + 1)
    traces = gen_traces(rep, lambda: gen_trace(rnd, ntasks=1), 150 if tier == "quick" else 2000)
    leg_t_gen(rep, work, SPEC, f"trace_{tier}", traces, **TRACE_KW)
    rep.assumptions += [
        "state classes are drawn from a fixed family: A (default-constructible), A2 (subclass of A), B (required "
        "attribute); value-level validation is C05",
        "metrics scope read through a probe log line (public API); the task-group identity is the one non-public read "
        "and degrades to a wildcard when unavailable",
    ]
    return rep.finish(exhaustive=True,
                      rule="all single-task programs of nested blocks up to MaxDepth/MaxOps over the supplied-sequence "
                           "alphabet; a lookup of every type (with and without explicit default) after every action")


def replay(rep, record):
    from harness.graph import parse_label
    if record.get("spec") == "ScopeLife":
        from props.scopelife_common import replay as r
        return r(rep, record)
    d = ScopesDriver(tuple(record["init"]["st"][0].keys()) if isinstance(record["init"]["st"], (list, tuple)) else ("A", "B"))
    d.reset(record["init"])
    try:
        for lab in record["path"]:
            name, args = parse_label(lab)
            print(f"  {lab} -> {d.apply(name, args)}")
    finally:
        d.close()
