"""C16 - timeout calls always terminate with the right outcome and leave nothing running."""
import asyncio
import os
import random

from haiway import ctx

from harness.decoys import decoyed
from harness.legs import cfg_text, leg_m, leg_mutant, leg_r
from harness.vloop import Falsy, VLoop, elder_loop

SPEC = "Timeout"
MANIFEST = dict(
    text="Timeout.tla models one call through the timeout wrapper as a race of inner task, deadline timer and caller; "
         "every loop callback is an internal action over an unordered ready set (ties are 'either'). TLC checks "
         "OutcomeRight, CallerCancelPropagates, SelfCancelSeen, NothingLeft, NoCallbackErrors in every state and the "
         "liveness property Termination under weak fairness; every controlled edge (time advance with/without the "
         "function finishing in that instant, function finishing with value/Exception/BaseException/self-cancel, "
         "caller cancellation; function obeying or swallowing its first cancellation) is replayed into the real "
         "wrapper on the virtual loop under FIFO, LIFO and random callback orders; a quiescent loop with a waiting "
         "caller where the model says 'done' is reported as a hang.",
    technique="TLA+ spec + TLC exhaustive model checking incl. liveness; edge-complete graph replay with internal-"
              "action closure into the implementation on a deterministic virtual-time loop",
    design="5/C16")
INVS = ["TypeOK", "OutcomeRight", "CallerCancelPropagates", "SelfCancelSeen", "NothingLeft", "NoCallbackErrors"]
INTERNAL = ["FnStep", "TimerFire", "OnCompletion", "OnResult", "CallerWake", "Settle"]
T0 = 1000.0


class Err(Exception):
    def __bool__(self):
        return False    # exceptions are user objects too: nothing may decide by their truthiness

    def __eq__(self, other):
        return isinstance(other, BaseException)     # exceptions that compare equal to each other (identity is what counts)

    def __hash__(self):
        return 19


class Base(BaseException):
    def __bool__(self):
        return False    # exceptions are user objects too: nothing may decide by their truthiness

    def __eq__(self, other):
        return isinstance(other, BaseException)     # exceptions that compare equal to each other (identity is what counts)

    def __hash__(self):
        return 19


class TimeoutDriver:
    def __init__(self):
        self.loop = None

    def reset(self, init):
        from haiway import timeout
        self.T, self.obey = init["T"], init["obey"]
        self.loop = loop = VLoop(start=T0)
        self.rnd = random.Random(int(os.environ.get("VERIF_SEED", "0") or 0) * 7919 + self.T * 2 + int(self.obey))
        self.now = 0
        self.seen = 0
        self.fn_state = "running"
        self.selfc_done = False
        self.gate = None
        self.got = None
        self.got_at = None
        self.VAL, self.ERR, self.BASE = Falsy("value"), Err("fn failed"), Base("fn base")
        drv = self

        async def fn(a, *, k):
            assert (a, k) == (1, 2)
            if drv.warmup == "first":
                return "warm"
            if drv.warmup == "bystander":
                drv.warmup = False             # the next invocation is the call under test
                await drv.by_gate              # another call through the same wrapper, overlapping the one under test
                return "bystander"
            if not drv.selfc_done:
                # before anything else the function is cancelled from INSIDE (an inner watchdog, a cancel scope that never
                # calls uncancel()) and swallows that: its task goes on with a cancellation request on its books that the
                # wrapper did not make - the function's own outcome is still what the caller gets
                drv.selfc_done = True
                asyncio.current_task().cancel()
                try:
                    await asyncio.sleep(0)
                except asyncio.CancelledError:
                    pass
            while True:
                gate = drv.gate = loop.create_future()
                try:
                    o = await gate
                except asyncio.CancelledError:
                    drv.seen += 1
                    if drv.obey or drv.seen >= 2:
                        drv.fn_state = "cancelled"
                        raise
                    if gate.done() and not gate.cancelled():
                        o = gate.result()
                    else:
                        continue
                break
            drv.gate = None
            if o == "val":
                drv.fn_state = "val"
                return drv.VAL
            if o == "exc":
                drv.fn_state = "exc"
                raise drv.ERR
            if o == "base":
                drv.fn_state = "base"
                raise drv.BASE
            drv.fn_state = "cancelled"
            raise asyncio.CancelledError()

        # what is wrapped is a plain function that checks its arguments and then returns the coroutine (a validating front
        # is as good a `Callable[..., Coroutine]` as an `async def`): a call it rejects ends with that rejection, at once
        self.REJECT = Err("rejected")

        def front(a, *, k):
            if a != 1:
                raise drv.REJECT
            return fn(a, k=k)

        wrapped = timeout(float(self.T))(decoyed(front))
        # the wrapper object is used once before the call under test (a call that ends normally at once): nothing of
        # that first call - a timer, a result, a callback - may be left to influence the second one
        if self.T == 0:
            # a timeout of 0: every call is over the moment it is made - the uses before the call under test are left out
            self.warmup = False
            self.warm_ok = True
            self.by_gate = None
        else:
            self.warmup = "first"
            # ... and that first call is made on ANOTHER event loop, one that stays open (a wrapper object is a module-level
            # thing; a program may well run it on one loop and later, or meanwhile, on another): no loop may be remembered
            elder = elder_loop()
            first = elder.create_task(wrapped(1, k=2))
            elder.quiesce()
            self.warm_ok = first.done() and not first.cancelled() and first.exception() is None and first.result() == "warm"
            first = loop.create_task(wrapped(1, k=2))
            loop.quiesce()
            self.warm_ok = self.warm_ok and first.done() and not first.cancelled() and first.exception() is None \
                and first.result() == "warm"
            # ... then a call the front rejects: the caller gets the rejection, nothing of that call stays behind either

            async def rejected():
                try:
                    await wrapped(0, k=2)
                except BaseException as e:  # noqa: BLE001
                    return e

            rej = loop.create_task(rejected())
            loop.quiesce()
            self.warm_ok = self.warm_ok and rej.done() and not rej.cancelled() and rej.result() is self.REJECT
            # ... and a second call through the same wrapper overlaps the call under test: it starts before it and ends
            # (normally) right after the call under test has started - two calls share nothing but the wrapped function
            self.warmup = "bystander"
            self.by_gate = loop.create_future()
            bystander = loop.create_task(wrapped(1, k=2))
            loop.quiesce()

        async def outer():
            try:
                async with ctx.scope("caller"):     # the call is made from inside a scope: the function's task is not its member
                    drv.got = ("val", await wrapped(1, k=2))
            except BaseException as e:  # noqa: BLE001
                drv.got = ("exc", e)
            drv.got_at = loop.time()

        self.caller = loop.create_task(outer())
        loop.quiesce()
        if self.by_gate is not None:
            self.by_gate.set_result(None)
            loop.quiesce()
            self.warm_ok = self.warm_ok and bystander.done() and not bystander.cancelled() \
                and bystander.exception() is None and bystander.result() == "bystander"
        loop.quiesce()

    def _policy(self):
        mode = self.rnd.choice(("fifo", "lifo", "random"))
        if mode == "fifo":
            return None
        if mode == "lifo":
            return lambda live: len(live) - 1
        return lambda live: self.rnd.randrange(len(live))

    def _settle(self, hold=False):
        if hold:
            # run everything except the caller task's own steps: its wake-up stays scheduled
            caller = self.caller
            self.loop.quiesce_where(lambda h: getattr(h._callback, "__self__", None) is not caller)
            return self._obs()
        self.loop.policy = self._policy()
        try:
            self.loop.quiesce()
        finally:
            self.loop.policy = None
        return self._obs()

    def _obs(self):
        if self.got is None:
            caller, at = "waiting", 0
        else:
            k, v = self.got
            at = self.got_at - T0
            if k == "val":
                caller = "val" if v is self.VAL else f"foreign value {v!r}"
            elif v is self.ERR:
                caller = "exc"
            elif v is self.BASE:
                caller = "base"
            elif isinstance(v, TimeoutError):
                caller = "timeout"
            elif isinstance(v, asyncio.CancelledError):
                caller = "cancelled"
            else:
                caller = f"foreign exception {v!r}"
        errs = sum(1 for c in self.loop.exceptions if "never retrieved" not in str(c.get("message", "")))
        if not self.warm_ok:
            errs += 100    # the plain first call through the same wrapper did not simply return
        return dict(caller=caller, at=at, fn=self.fn_state, seen=self.seen,
                    timers=len(self.loop.pending_timers()), errs=errs)

    def apply(self, name, args):
        if name == "Tick":
            if args[0] != "none":
                self.gate.set_result(args[0])
            self.now += 1
            self.loop.advance(T0 + self.now)
            return self._settle(hold=args[1])
        if name == "FnFinish":
            self.gate.set_result(args[0])
            return self._settle(hold=args[1])
        if name == "CallerCancel":
            self.caller.cancel()
            return self._settle()
        if name == "Release":
            return self._settle()
        raise ValueError(name)

    def close(self):
        if self.loop is not None:
            self.loop.shutdown()


def run(rep, work, tier, seed):
    c = dict(MaxT=5, MaxDeadline=3, Bug="none") if tier == "quick" else dict(MaxT=7, MaxDeadline=4, Bug="none")
    rep.extra["constants"] = c
    leg_m(rep, work, SPEC, f"mc_{tier}", cfg_text(c, spec="Spec", invariants=INVS, properties=["Termination"]),
          expect_actions=INTERNAL + ["Tick", "FnFinish", "CallerCancel", "Release"])
    if tier == "thorough":
        leg_mutant(rep, work, SPEC, "mutant_only_exception",
                   cfg_text(dict(MaxT=5, MaxDeadline=2, Bug="only_exception"), spec="Spec", invariants=INVS,
                            properties=["Termination"]), ["NoCallbackErrors", "temporal", "SelfCancelSeen", "OutcomeRight"])
        leg_mutant(rep, work, SPEC, "mutant_late_cancel_swallowed",
                   cfg_text(dict(MaxT=5, MaxDeadline=2, Bug="late_cancel_swallowed"), spec="Spec", invariants=INVS),
                   ["CallerCancelPropagates"])
        leg_mutant(rep, work, SPEC, "mutant_no_task_cancel",
                   cfg_text(dict(MaxT=5, MaxDeadline=2, Bug="no_task_cancel"), spec="Spec", invariants=INVS),
                   ["NothingLeft", "OutcomeRight", "CallerCancelPropagates"])
    reps = 1 if tier == "quick" else 3
    for i in range(reps):  # each pass draws different callback orders for the tie instants
        os.environ["VERIF_SEED"] = str(seed + i)
        leg_r(rep, work, SPEC, f"conf_{tier}" + (f"_pass{i}" if i else ""), cfg_text(c, invariants=INVS),
              TimeoutDriver, internal=INTERNAL, opt=True)
    os.environ["VERIF_SEED"] = str(seed)
    rep.assumptions += [
        "the wrapped function is a gated double that ends with value / Exception / BaseException / self-raised "
        "CancelledError when told to, and obeys or swallows its first cancellation (always obeys a second)",
        "integer virtual time; deadlines 1..MaxDeadline; exact ties are modelled as 'either outcome'",
        "KeyboardInterrupt / SystemExit raised by the function are outside the model (asyncio re-raises them out of the loop)",
    ]
    # the decorator stacked with the others (Stack.tla): every layer acts on the layer below it
    from props.stack_common import stack_legs
    stack_legs(rep, work, tier, "timeout")
    return rep.finish(exhaustive=True,
                      rule="all interleavings of {time advance (optionally with the function finishing in that instant), "
                           "function finish x 4 outcomes, caller cancel} for every deadline and obey/ignore choice within "
                           "MaxT; every controlled edge replayed into the real wrapper")


def replay(rep, record):
    from harness.graph import parse_label
    if record.get("spec") == "Stack":
        from props.stack_common import replay_stack
        return replay_stack(record)
    d = TimeoutDriver()
    d.reset(record["init"])
    print("  scenario: T =", record["init"]["T"], "obey =", record["init"]["obey"])
    try:
        for lab in record["path"]:
            name, args = parse_label(lab)
            print(f"  {lab} -> {d.apply(name, args)}")
    finally:
        d.close()
