"""Term <-> Python conversion shared by C05 / C04 (Values*.tla): annotation terms to real annotations, value terms
to real values, stored attributes back to value terms."""
import datetime as _dt
import enum
import pathlib
import re
import typing
import uuid
from collections.abc import Mapping, Sequence, Set
from types import MappingProxyType

from haiway import MISSING, Missing, State, frozenlist

type Pair[Element] = tuple[Element, Element]
type Pair2[A, B] = tuple[A, B]
type Swapped[A, B] = Pair2[B, A]        # the same parameter names, handed on in the other order


class E(enum.Enum):
    one = 1
    two = 2


class Inner(State):
    v: int = 0


class Inner2(Inner):
    pass


def _plain_function(x=0):
    return x


@typing.runtime_checkable
class Runner(typing.Protocol):
    def run(self) -> str: ...


class RunnerClass:
    """conforms to Runner through its class"""

    def run(self) -> str:
        return "class"


class Plugin:
    """a plain holder: behaviour is attached per instance, so two instances of this one class differ in conformance"""

    def __init__(self, run=None):
        if run is not None:
            self.run = run


# annotations validated by a plain isinstance check, and one value of each
PLAIN = {
    "complex": (complex, 1j), "range": (range, range(3)), "uuid": (uuid.UUID, uuid.UUID(int=7)),
    "date": (_dt.date, _dt.date(2020, 1, 2)), "datetime": (_dt.datetime, _dt.datetime(2020, 1, 2, 3, 4)),
    "time": (_dt.time, _dt.time(3, 4)), "timedelta": (_dt.timedelta, _dt.timedelta(seconds=5)),
    "timezone": (_dt.timezone, _dt.timezone.utc), "path": (pathlib.Path, pathlib.Path("/x/y")),
    "pattern": (re.Pattern, re.compile("a+")),
}
STR = {1: "a", 2: "bc", 0: ""}
KIND_ORDER = ["none", "bool", "int", "float", "str", "bytes", "missing", "enumv", "state", "state2", "pclass", "pinst",
              "phollow", "list", "tuple",
              "set", "fset", "dict", "pair", *PLAIN, "func", "cls", "other"]


def A(k, xs=(), vs=()):
    return dict(k=k, xs=tuple(xs), vs=tuple(vs))


def V(k, p=0, xs=()):
    return dict(k=k, v=p, xs=tuple(xs))


def ann_to_py(a):
    k, xs = a["k"], a["xs"]
    if k == "none":
        return None
    if k in ("bool", "int", "float", "str", "bytes"):
        return {"bool": bool, "int": int, "float": float, "str": str, "bytes": bytes}[k]
    if k in PLAIN:
        return PLAIN[k][0]
    if k == "callable":
        return typing.Callable[[int], int]
    if k == "type":
        return type
    if k == "any":
        return typing.Any
    if k == "missing":
        return Missing
    if k == "enum":
        return E
    if k == "proto":
        return Runner
    if k == "state":
        return Inner
    if k == "lit":
        return typing.Literal[tuple(val_to_py(v) for v in a["vs"])]
    if k == "seq":
        return Sequence[ann_to_py(xs[0])]
    if k == "set":
        return Set[ann_to_py(xs[0])]
    if k == "fset":
        return frozenset[ann_to_py(xs[0])]
    if k == "vtuple":
        return tuple[ann_to_py(xs[0]), ...]
    if k == "tuple":
        return tuple[tuple(ann_to_py(x) for x in xs)]
    if k == "map":
        return Mapping[ann_to_py(xs[0]), ann_to_py(xs[1])]
    if k == "union":
        out = ann_to_py(xs[0])
        for x in xs[1:]:
            out = typing.Union[out, ann_to_py(x)]
        return out
    if k == "alias":
        return typing.TypeAliasType("Alias", ann_to_py(xs[0]))
    if k == "flist":
        return frozenlist[ann_to_py(xs[0])]       # haiway's own parametrised alias of tuple[Value, ...]
    if k == "pair":
        return Pair[ann_to_py(xs[0])]
    if k == "swap":
        return Swapped[ann_to_py(xs[0]), ann_to_py(xs[1])]
    raise ValueError(k)


def val_to_py(v):
    k, p, xs = v["k"], v["v"], v["xs"]
    if k == "none":
        return None
    if k == "bool":
        return bool(p)
    if k == "int":
        return int(p)
    if k == "float":
        return p / 10
    if k == "str":
        return STR[p]
    if k == "bytes":
        return b"a"
    if k == "missing":
        return MISSING
    if k in PLAIN:
        return PLAIN[k][1]
    if k == "func":
        return _plain_function
    if k == "cls":
        return Inner
    if k == "enumv":
        return E.one
    if k == "pclass":
        return RunnerClass()
    if k == "pinst":
        return Plugin(run=lambda: "instance")
    if k == "phollow":
        return Plugin()
    if k == "state":
        return Inner(v=p)
    if k == "state2":
        return Inner2(v=p)
    if k == "list":
        return [val_to_py(x) for x in xs]
    if k == "tuple":
        return tuple(val_to_py(x) for x in xs)
    if k == "set":
        return {val_to_py(x) for x in xs}
    if k == "fset":
        return frozenset(val_to_py(x) for x in xs)
    if k == "dict":
        return {val_to_py(x["xs"][0]): val_to_py(x["xs"][1]) for x in xs}
    raise ValueError(k)


def _key(t):
    return (KIND_ORDER.index(t["k"]) if t["k"] in KIND_ORDER else 99, repr(t["v"]), len(t["xs"]), repr(t["xs"]))


def py_to_val(o):
    """real (stored) object -> value term; unordered collections in canonical order"""
    if o is None:
        return V("none")
    if o is MISSING:
        return V("missing")
    if o is _plain_function:
        return V("func", 1)
    if o is Inner:
        return V("cls", 1)
    for kind in ("datetime", *PLAIN):      # datetime before date: it is a subclass
        if type(o) is type(PLAIN[kind][1]) or (kind == "path" and isinstance(o, pathlib.Path)):
            return V(kind, 1) if o == PLAIN[kind][1] else V("other", repr(o)[:60])
    if isinstance(o, bool):
        return V("bool", int(o))
    if isinstance(o, int):
        return V("int", o)
    if isinstance(o, float):
        return V("float", int(round(o * 10)))
    if isinstance(o, str):
        inv = {v: k for k, v in STR.items()}
        return V("str", inv.get(o, "?" + o))
    if isinstance(o, bytes):
        return V("bytes", 1)
    if isinstance(o, E):
        return V("enumv", o.value)
    if type(o) is RunnerClass:
        return V("pclass", 1)
    if type(o) is Plugin:
        return V("pinst" if "run" in vars(o) else "phollow", 1)
    if type(o) is Inner2:
        return V("state2", o.v)
    if type(o) is Inner:
        return V("state", o.v)
    if isinstance(o, list):
        return V("list", 0, [py_to_val(x) for x in o])
    if isinstance(o, tuple):
        return V("tuple", 0, [py_to_val(x) for x in o])
    if isinstance(o, frozenset):
        return V("fset", 0, sorted((py_to_val(x) for x in o), key=_key))
    if isinstance(o, set):
        return V("set", 0, sorted((py_to_val(x) for x in o), key=_key))
    if isinstance(o, (dict, MappingProxyType)):
        return V("dict", 0, [V("pair", 0, [py_to_val(k), py_to_val(v)]) for k, v in o.items()])
    return V("other", repr(o)[:60])


def is_frozen(o):
    """the documented immutable conversion: no list / set / dict reachable"""
    if isinstance(o, (list, set, dict)):
        return False
    if isinstance(o, (tuple, frozenset)):
        return all(is_frozen(x) for x in o)
    if isinstance(o, MappingProxyType):
        return all(is_frozen(k) and is_frozen(v) for k, v in o.items())
    return True


_CLS = {}


class GHolder[T](State):
    x: T


class GInner[T](State):
    x: T


class GOuter[T](State):
    inner: GInner[T]        # the nested annotation is parametrised by the OWNER's type variable


def make_generic_nested(a):
    """(GOuter[annotation], GInner[annotation]) - whatever the annotation is, also None"""
    key = ("generic-nested", repr(a))
    if key not in _CLS:
        py = ann_to_py(a)
        _CLS[key] = (GOuter[py], GInner[py])
    return _CLS[key]


def make_generic(a):
    """the holder as a specialisation GHolder[annotation]: exercises generic parameter resolution and the cache of
    specialised classes (kept alive here, as application code keeps its classes alive)"""
    key = ("generic", repr(a))
    if key not in _CLS:
        _CLS[key] = GHolder[ann_to_py(a)]
    return _CLS[key]


def make_generic_subclass(a):
    """a plain subclass of the specialised holder: `class Sub(GHolder[annotation])` - the inherited attribute keeps the
    type argument of the base it was declared in"""
    key = ("generic-sub", repr(a))
    if key not in _CLS:
        base = make_generic(a)
        _CLS[key] = type(State)("SubHolder", (base,), {"__module__": __name__, "__annotations__": {"extra": int}, "extra": 0})
    return _CLS[key]


def make_class(a, default=MISSING, name="Holder"):
    key = (repr(a), default is not MISSING)
    if default is MISSING and key in _CLS:
        return _CLS[key]
    ns = {"__annotations__": {"x": ann_to_py(a)}, "__module__": __name__}
    if default is not MISSING:
        ns["x"] = default
    cls = type(State)(name, (State,), ns)
    if default is MISSING:
        _CLS[key] = cls
    return cls
