"""C10 - recorded metrics land in the innermost active scope and fold deterministically."""
import random

from harness.legs import cfg_text, gen_traces, leg_m, leg_mutant, leg_r, leg_t_gen
from props.metrics_common import MetricsDriver, gen_trace, trace_kw

SPEC = "Metrics"
# no optimised pass: without assertions a record made after the scope completed is no longer refused (the refusal IS an
# assertion caught by the context) - it lands in the completed scope.  The property only says that recording never raises,
# which holds either way; the specification describes the behaviour with assertions, as the tests run it.
OPT_PASS = False
MANIFEST = dict(
    text="Metrics.tla with Record(t, m): the record lands in the recording task's current scope only (action property "
         "Attribution), values are sequences of record ids so that order is visible (FoldOrder), the merged view "
         "ViewOf folds nested scopes depth-first in registration order, and Record has no failing outcome - outside "
         "any scope, on a completed scope, with a raising merge function. TLC explores all placements of records of "
         "four metric types (concatenate, replace, sum, raising merge) by 2-3 interleaved tasks over all small scope "
         "trees; every edge is replayed into real ctx.record calls, each completion callback reads metrics.read(M) and "
         "metrics.metrics(merge=...) and a Drain edge from every state re-reads all completed scopes. Also: records landing in scopes that were made in one place and entered in another; a metric type whose merge function answers with another class than the one recorded (CatSub).",
    technique="TLA+ spec + TLC exhaustive model checking; edge-complete graph replay into the implementation through a "
              "gated interpreter",
    design="5/C10")
INVS = ["TypeOK", "CbAtMostOnce", "CbAfterSubtree", "ExitNeverFails", "FoldOrder"]
PROPS = ["Attribution", "CompletedStable"]
INTERNAL = ["RunCb", "Finish"]
MT = ["Cat", "Last", "Sum", "Boom", "Same", "Mix"]


def run(rep, work, tier, seed):
    if tier == "quick":
        mc = dict(NTasks=2, N=3, MaxOps=7, MaxRec=3, MaxT=0, MTypes=["Cat", "Boom"], Kinds=["s", "a"], Prep=False, Threads=False, Bug="none")
        conf = dict(NTasks=2, N=2, MaxOps=5, MaxRec=3, MaxT=0, MTypes=MT, Kinds=["s", "a"], Prep=False, Threads=False, Bug="none")
    else:
        mc = dict(NTasks=3, N=3, MaxOps=8, MaxRec=4, MaxT=0, MTypes=["Cat", "Boom"], Kinds=["s", "a"], Prep=False, Threads=False, Bug="none")
        conf = dict(NTasks=2, N=3, MaxOps=6, MaxRec=3, MaxT=0, MTypes=MT, Kinds=["s", "a"], Prep=False, Threads=False, Bug="none")
    rep.extra["constants"] = dict(model=mc, conformance=conf)
    leg_m(rep, work, SPEC, f"mc_{tier}", cfg_text(mc, spec="Spec", invariants=INVS, properties=PROPS),
          expect_actions=["Open", "Close", "RunCb", "Start", "Record", "Drain"], timeout=3000)
    if tier == "thorough":
        small = dict(NTasks=2, N=2, MaxOps=5, MaxRec=2, MaxT=0, MTypes=["Cat"], Kinds=["s", "a"], Prep=False, Threads=False)
        leg_mutant(rep, work, SPEC, "mutant_record_parent",
                   cfg_text(dict(small, Bug="record_parent"), spec="Spec", invariants=INVS, properties=PROPS),
                   ["Attribution"])
        leg_mutant(rep, work, SPEC, "mutant_merge_swapped", cfg_text(dict(small, Bug="merge_swapped"), invariants=INVS),
                   ["FoldOrder"])
    leg_r(rep, work, SPEC, f"conf_{tier}", cfg_text(conf, invariants=INVS), lambda: MetricsDriver(MT),
          internal=INTERNAL, world=True)
    # records landing in a scope object that was made in one place and entered in another: it is nested where it was made
    # (its values show in that scope's merged view, in creation order), it is current where it was entered
    madec = dict(NTasks=2, N=2, MaxOps=6 if tier == "quick" else 7, MaxRec=2, MaxT=0, MTypes=["Cat"], Kinds=["s", "a"],
                 Prep=True, Threads=False, Bug="none")
    leg_m(rep, work, SPEC, f"made_mc_{tier}", cfg_text(madec, spec="Spec", invariants=INVS, properties=PROPS),
          expect_actions=["Make", "EnterMade", "Record", "RunCb"], timeout=3000)
    leg_r(rep, work, SPEC, f"made_conf_{tier}", cfg_text(madec, invariants=INVS), lambda: MetricsDriver(["Cat"]),
          internal=INTERNAL, world=True)
    # a metric type whose merge function answers with another class than the one recorded (a subclass folded into its base)
    poly = dict(NTasks=1, N=2, MaxOps=6, MaxRec=3, MaxT=0, MTypes=["CatSub", "Last"], Kinds=["s"], Prep=False, Threads=False, Bug="none")
    leg_r(rep, work, SPEC, f"poly_conf_{tier}", cfg_text(poly, invariants=INVS), lambda: MetricsDriver(["CatSub", "Last"]),
          internal=INTERNAL, world=True)
    # a scope opened - and recorded into - by a task that inherited a scope which has meanwhile been LEFT by its owner and only
    # waits for another nested scope to be left: it is nested there all the same, its values show in the merged view (needs
    # three tasks and nine operations; sync scopes, one record)
    latenest = dict(NTasks=3, N=3, MaxOps=8, MaxRec=1, MaxT=0, MTypes=["Cat"], Kinds=["s"], Prep=False, Threads=False, Bug="none")
    leg_r(rep, work, SPEC, f"late_nested_conf_{tier}", cfg_text(latenest, invariants=INVS), lambda: MetricsDriver(["Cat"]),
          internal=INTERNAL, world=True)
    # a merge function that is NOT associative, the same metric type at three levels of nesting: the grouping of the merged
    # view (each nested scope's own merged view is folded in as one value) shows
    mix = dict(NTasks=1, N=3, MaxOps=7, MaxRec=3, MaxT=0, MTypes=["Mix"], Kinds=["s"], Prep=False, Threads=False, Bug="none")
    leg_r(rep, work, SPEC, f"mix_conf_{tier}", cfg_text(mix, invariants=INVS), lambda: MetricsDriver(["Mix"]),
          internal=INTERNAL, world=True)
    # leg T: random programs over 4 tasks / 8 scopes recorded from the real library, validated by a trace module
    # generated from Metrics.tla (callbacks run as silent internal steps between the logged events)
    rnd = random.Random(seed * 19 + 5)
    traces = gen_traces(rep, lambda: gen_trace(rnd, MT, records=True), 120 if tier == "quick" else 1500)
    leg_t_gen(rep, work, SPEC, f"trace_{tier}", traces, **trace_kw(MT))
    rep.assumptions += [
        "metric values are observed when the scope's completion callback runs and again at the end of each run, through "
        "ScopeMetrics.read and ScopeMetrics.metrics(merge=...) - a scope that never completes is not read",
        "metric types: Cat (merge = concatenation), Last (default replace), Sum (addition), Boom (merge raises)",
    ]
    return rep.finish(exhaustive=True,
                      rule="all placements of up to MaxRec records of the metric types by interleaved tasks over all scope "
                           "trees with up to N scopes (incl. records outside any scope and on completed scopes); every edge "
                           "replayed, every state drained")


def replay(rep, record):
    from harness.graph import parse_label
    d = MetricsDriver(MT)
    d.reset(record["init"])
    try:
        for lab in record["path"]:
            name, args = parse_label(lab)
            print(f"  {lab} -> {d.apply(name, args)}")
    finally:
        d.close()
