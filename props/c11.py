"""C11 - context streams run in their creation context and leave the consumer's intact."""
import asyncio
import random

from haiway import ctx

from harness import interp
from harness.interp import World
from harness.legs import cfg_text, gen_traces, leg_m, leg_mutant, leg_r, leg_t_gen

SPEC = "Streams"
MANIFEST = dict(
    text="Streams.tla describes ctx.stream (items in order then the generator's own end; the generator body always "
         "sees the creation context - state, metrics scope, task group - whichever task pulls; the consumer's state / "
         "metrics scope / task group untouched between items, after the end, after break and after close; the stream's "
         "scope completes on exhaustion or close, also when closed before the first item) for a stream created in one "
         "scope and consumed in the same scope, another scope, outside any scope or item by item from fresh tasks, "
         "fully / abandoned / closed, with a normal or failing end and an optional nested scope inside the generator. "
         "TLC checks ItemsInOrder, EndsWithError, GenSeesCreation, ConsumerIntact, StreamScopeCompletes; every edge is "
         "replayed into real streams, the generator double yielding what it observes itself and the consumer "
         "re-probing its own context after every step. (Until the repair of ctx.stream - fix #21 - the module carried "
         "deviation actions for five known findings; they are gone, any deviation is a violation now.) Also: streams made outside every scope (empty context), pulls that are requested and never run (Dangle), generators that spawn tasks and that handle a cancellation thrown into them.",
    technique="TLA+ spec + TLC exhaustive model checking; edge-complete graph replay into the implementation through "
              "the gated interpreter",
    design="5/C11")
INVS = ["TypeOK", "ItemsInOrder", "GenSeesCreation", "CallSeesStreamScope", "ConsumerIntact", "StreamScopeCompletes",
        "SpawnedSettled"]
PROPS = ["EndsWithError"]
STREAM = 50
BUSY = 77


class StreamsDriver:
    def reset(self, init):
        self.w = w = World(types=("A",))
        self.place, self.n, self.ending, self.nested = init["place"], init["n"], init["ending"], init["nested"]
        self.slow = init["slow"]
        self.kind = init["kind"]
        self.gsp = init["gsp"]
        self.hc = init["hc"]
        self.made = init.get("made", "scope")
        self.call_view = (0, 0, 0)
        self.hold = None
        self.puller = None
        self.res = []
        self.done = []
        self.k = 0
        drv = self

        async def gen(tag):
            assert tag == "t"
            for i in range(drv.n):
                if drv.gsp and i == 0:
                    w.tasks["sp"] = ctx.spawn(w.run_task, "sp")   # lands in the stream's own task group
                if drv.slow == i + 1:
                    drv.hold = w.loop.create_future()   # suspended before this item until the driver releases it
                    try:
                        await drv.hold
                    except asyncio.CancelledError:
                        if not drv.hc:
                            raise
                        # the body handles the cancellation that reached it and answers with the item anyway
                if drv.nested and i == 1:
                    with ctx.scope("s3", interp.A(v=3)):
                        yield (i, w.lookup("A"), w.metrics_label(), w.group_id())
                else:
                    yield (i, w.lookup("A"), w.metrics_label(), w.group_id())
            if drv.ending == "error":
                raise w.err_of("gen")

        def factory(tag):
            # a plain function: calling it does work (here: it looks around) and returns the generator
            drv.call_view = (w.lookup("A"), drv._m(w.metrics_label()), drv._m(w.group_id()))
            return gen(tag)

        def raising(tag):
            raise w.err_of("gen")

        factory.__name__ = raising.__name__ = "gen"   # the stream's scope is named after its source
        self.gen = gen
        self.source = {"agen": gen, "factory": factory, "raising": raising}[self.kind]
        w.start("1")
        if self.made == "scope":
            w.do("1", "ascope", 1, [("A", 1)], None, lambda m: drv.done.append(1))

        def mk():
            drv.stream = ctx.stream(drv.source, "t")

        w.do("1", "call", mk)     # made == "bare": outside every scope, in a context in which no variable was ever set
        if self.place != "same" and self.made == "scope":
            w.do("1", "leave", "return")
        if self.place == "other_scope":
            w.do("1", "ascope", 2, [("A", 2)], None, None)

    @staticmethod
    def _m(x):
        return STREAM if x in ("gen", "unknown-group") else x

    def _cons(self):
        p = self.w.at.get("1")
        if p is None:
            return (BUSY, BUSY, BUSY) if self.w.status("1") == "busy" else ("gone", self.w.status("1"), 0)
        return (p["A"], self._m(p["ms"]), self._m(p["tg"]))

    def _sp(self):
        st = self.w.status("sp")
        return {"unborn": "none", "gate": "run", "busy": "run"}.get(st, st)

    def _run(self, fn):
        if self.place == "other_task":
            self.k += 1
            name = self.puller = f"n{self.k}"
            self.w.do("1", "plainspawn", name)
            self.w.do(name, "call", fn)
        else:
            self.puller = "1"
            self.w.do("1", "call", fn)
        self._retire()

    def _retire(self):
        """a helper task that finished its pull goes away"""
        if self.puller not in (None, "1") and self.w.status(self.puller) == "gate":
            self.w.do(self.puller, "leave", "return")

    def apply(self, name, args):
        o = self._apply(name, args)
        self.last = o
        return o

    def _apply(self, name, args):
        w = self.w
        res = self.res = []
        if name == "EndSpawned":
            # the task ends; a pull that was waiting for it (an exhausted stream) completes, everything else stays as
            # it was last seen
            before = len(getattr(self, "pending", []))
            w.do("sp", "leave", "return")
            w.loop.quiesce()
            self._retire()
            pend = getattr(self, "pending", [])
            prev = getattr(self, "last", None) or dict(res=("none", 0, 0, 0, 0))
            res1 = pend[0] if len(pend) > before else prev["res"]
            return dict(res=res1, cons=self._cons(), s1=bool(self.done), call=tuple(self.call_view), sp=self._sp())
        if name in ("Release", "CancelPull", "EndSpawned"):
            if name == "Release":
                self.hold.set_result(None)
            elif name == "EndSpawned":
                w.do("sp", "leave", "return")
            else:
                w.tasks[self.puller].cancel()
            w.loop.quiesce()
            self._retire()
            return dict(res=self.pending[0] if self.pending else ("hang", 0, 0, 0, 0), cons=self._cons(), s1=bool(self.done), call=tuple(self.call_view), sp=self._sp())
        if name == "Pull":
            res = self.pending = []
            async def nx():
                try:
                    i, a, ms, tg = await self.stream.__anext__()
                    res.append(("item", i, a, self._m(ms), self._m(tg)))
                except StopAsyncIteration:
                    res.append(("stop", 0, 0, 0, 0))
                except asyncio.CancelledError:
                    res.append(("cancelled", 0, 0, 0, 0))
                except BaseException as e:  # noqa: BLE001
                    res.append(("err", 0, 0, 0, 0) if e is w.errs.get("gen") else ("exc", 0, 0, 0, 0))
                    if res[-1][0] == "exc":
                        self.last_exc = repr(e)[:200]
            self._run(nx)
        elif name == "Close":
            async def cl():
                try:
                    await self.stream.aclose()
                    res.append(("closed", 0, 0, 0, 0))
                except BaseException as e:  # noqa: BLE001
                    res.append(("exc", 0, 0, 0, 0))
                    self.last_exc = repr(e)[:200]
            self._run(cl)
        elif name == "Abandon":
            res.append(("abandoned", 0, 0, 0, 0))
        elif name == "Dangle":
            # the pull is requested - the awaitable exists - and never runs: dropped unawaited (k odd) or polled with a
            # zero timeout, which cancels it before its first step (k even)
            self.kdangle = getattr(self, "kdangle", 0) + 1
            if self.kdangle % 2:
                def dg():
                    import warnings
                    with warnings.catch_warnings():
                        warnings.simplefilter("ignore", RuntimeWarning)
                        aw = self.stream.__anext__()
                        close = getattr(aw, "close", None)
                        if close is not None:
                            close()
                        del aw
                    res.append(("dangled", 0, 0, 0, 0))
            else:
                async def dg():
                    try:
                        await asyncio.wait_for(self.stream.__anext__(), 0)
                        res.append(("exc", 0, 0, 0, 0))
                    except TimeoutError:
                        res.append(("dangled", 0, 0, 0, 0))
            self._run(dg)
        else:
            raise ValueError(name)
        w.loop.quiesce()
        if not res and name == "Pull" and ((self.hold is not None and not self.hold.done()) or self._sp() == "run"):
            return dict(res=("pending", 0, 0, 0, 0), cons=self._cons(), s1=bool(self.done), call=tuple(self.call_view), sp=self._sp())
        return dict(res=res[0] if res else ("hang", 0, 0, 0, 0), cons=self._cons(), s1=bool(self.done), call=tuple(self.call_view), sp=self._sp())

    def close(self):
        self.w.close()


def gen_trace(rnd, max_items=8):
    """a random scenario with up to 8 items and a random sequence of pull / release / cancel / abandon / close, recorded
    from the real stream"""
    n = rnd.randint(0, max_items)
    init = dict(place=rnd.choice(["same", "other_scope", "outside", "other_task"]), n=n,
                ending=rnd.choice(["normal", "error"]), nested=n >= 2 and rnd.random() < 0.5,
                slow=rnd.choice([0, 0, rnd.randint(1, n) if n else 0]), kind=rnd.choice(["agen", "agen", "factory", "factory", "raising"]))
    if init["kind"] == "raising":
        init.update(n=0, nested=False, slow=0, ending="normal")
        n = 0
    init["gsp"] = init["kind"] == "agen" and n >= 1 and rnd.random() < 0.4
    init["hc"] = init["slow"] > 0 and rnd.random() < 0.4
    init["made"] = "bare" if init["place"] != "same" and rnd.random() < 0.3 else "scope"
    d = StreamsDriver()
    d.reset(init)
    tr = [dict(ev="Init", init=init)]
    sst, ops, spawned = "fresh", 0, "none"
    try:
        while ops < n + 4:
            if sst == "pulling":
                if d.hold is not None and not d.hold.done():
                    ch = ["Release", "Release", "CancelPull"]
                else:                                    # exhausted, waiting for the spawned task
                    ch = ["EndSpawned", "EndSpawned", "CancelPull"]
            else:
                ch = ["Pull"] * 8 + ["Close"] + (["Dangle"] if sst in ("fresh", "open") else [])
                if sst == "open":
                    ch += ["Abandon"]
            if spawned == "run" and "EndSpawned" not in ch:
                ch += ["EndSpawned"]
            name = rnd.choice(ch)
            o = d.apply(name, ())
            spawned = o["sp"]
            ops += 1
            k = o["res"][0]
            sst = {"pending": "pulling", "item": "open", "stop": "ended" if sst in ("fresh", "open", "pulling") else sst,
                   "err": "ended", "closed": "closed", "cancelled": "cancelled", "abandoned": sst, "dangled": sst}.get(k, "dead")
            tr.append(dict(ev=name, args=[], obs=dict(res=list(o["res"]), cons=list(o["cons"]), s1=o["s1"], call=list(o["call"]), sp=o["sp"])))
            if sst == "dead":
                break
    finally:
        d.close()
    return tr


TRACE_KW = dict(
    variables=["place", "n", "ending", "nested", "slow", "kind", "gsp", "hc", "made", "pos", "sst", "s1done", "called", "sp", "nops", "obs"],
    constants=dict(MaxItems=8, Bug='"none"', Poll="TRUE"),
    config_vars=["place", "n", "ending", "nested", "slow", "kind", "gsp", "hc", "made"],
    actions=dict(Pull=0, Release=0, EndSpawned=0, CancelPull=0, Close=0, Abandon=0, Dangle=0),
    invariants=["ItemsInOrder", "GenSeesCreation", "CallSeesStreamScope", "ConsumerIntact", "StreamScopeCompletes",
                "SpawnedSettled"])


def run(rep, work, tier, seed):
    mi = 2 if tier == "quick" else 3
    leg_m(rep, work, SPEC, f"mc_{tier}", cfg_text(dict(MaxItems=mi + 1, Poll=False, Bug="none"), spec="Spec", invariants=INVS, properties=PROPS),
          expect_actions=["Pull", "Release", "EndSpawned", "CancelPull", "Close", "Abandon"])
    if tier == "thorough":
        for bug, inv in (("reorder", ["ItemsInOrder"]), ("swallow_error", ["EndsWithError", "ItemsInOrder"]),
                         ("never_completes", ["StreamScopeCompletes"]), ("cancel_leaks_scope", ["StreamScopeCompletes"]), ("call_outside_scope", ["CallSeesStreamScope"]), ("close_awaits_spawned", ["SpawnedSettled"])):
            leg_mutant(rep, work, SPEC, f"mutant_{bug}",
                       cfg_text(dict(MaxItems=2, Poll=False, Bug=bug), spec="Spec", invariants=INVS, properties=PROPS), inv)
    leg_r(rep, work, SPEC, f"conf_{tier}", cfg_text(dict(MaxItems=mi + 1, Poll=False, Bug="none"), invariants=INVS),
          StreamsDriver, world=True)
    # pulls that are requested and never run (an awaitable made and dropped, a poll with a zero timeout), on short streams
    poll = dict(MaxItems=1 if tier == "quick" else 2, Poll=True, Bug="none")
    leg_m(rep, work, SPEC, f"poll_mc_{tier}", cfg_text(poll, spec="Spec", invariants=INVS, properties=PROPS), expect_actions=["Dangle", "Close"])
    leg_r(rep, work, SPEC, f"poll_conf_{tier}", cfg_text(poll, invariants=INVS), StreamsDriver, world=True)
    # leg T: longer streams (up to 8 items, suspension before a random item) with random operation sequences
    rnd = random.Random(seed * 31 + 11)
    traces = gen_traces(rep, lambda: gen_trace(rnd), 150 if tier == "quick" else 2000)
    leg_t_gen(rep, work, SPEC, f"trace_{tier}", traces, **TRACE_KW)
    rep.assumptions += [
        "the generator double yields, as each item, what it observes itself (state lookup, metrics scope), optionally "
        "from inside a nested scope; consumption from 'other tasks' pulls every item from a fresh task",
        "garbage-collection of an abandoned stream (async-generator finaliser) is replaced by explicit aclose()",
    ]
    return rep.finish(exhaustive=True,
                      rule="every scenario (4 consumption places x item counts x normal/error end x nested scope) x every "
                           "sequence of pull / abandon / close; every edge replayed")


def replay(rep, record):
    from harness.graph import parse_label
    d = StreamsDriver()
    d.reset(record["init"])
    print("  scenario:", {k: record["init"][k] for k in ("place", "n", "ending", "nested", "slow", "kind", "gsp", "hc", "made")})
    try:
        for lab in record["path"]:
            name, args = parse_label(lab)
            print(f"  {lab} -> {d.apply(name, args)}")
    finally:
        d.close()
