"""C11 - context streams run in their creation context and leave the consumer's intact."""
from haiway import ctx

from harness import interp
from harness.interp import World
from harness.legs import cfg_text, leg_m, leg_mutant, leg_r

SPEC = "Streams"
MANIFEST = dict(
    text="Streams.tla states the intended design of ctx.stream (items in order then the generator's own end; the "
         "generator always sees the creation context; the consumer's state / metrics scope / task group untouched "
         "between items, after the end, after break and after close; the stream's scope completes on exhaustion or "
         "close) for a stream created in one scope and consumed in the same scope, another scope, outside any scope or "
         "item by item from other tasks, fully / abandoned / closed. TLC checks ItemsInOrder, EndsWithError, "
         "GenSeesCreation, ConsumerIntact, StreamScopeCompletes on the intended design. The pinned implementation runs "
         "the generator body in the CONSUMER's context (a genuine defect whose repair is a redesign): it is described "
         "in the same module by deviation actions *_KF_C11 that havoc exactly the affected observation fields; the "
         "conformance replay accepts an intended or a deviation successor, classifies every deviation case into the "
         "listed known findings (KNOWN-FINDING lines) and reports anything else - wrong item order, lost items, wrong "
         "end, a deviation outside the listed signatures - as a violation.",
    technique="TLA+ spec + TLC exhaustive model checking of the intended design; edge-complete graph replay into the "
              "implementation with named deviation actions for the listed known findings",
    design="5/C11")
INVS = ["TypeOK", "ItemsInOrder", "EndsWithError", "GenSeesCreation", "ConsumerIntact", "StreamScopeCompletes"]
STREAM = 50

KF_TEXT = {
    "KF-C11-gen-sees-consumer-state": "the stream's generator body observes the state of the context that calls "
                                      "__anext__ (consumer's scope / none), not the state current where ctx.stream was called",
    "KF-C11-consumer-sees-stream-scope": "between items the consumer's context holds the stream's metrics scope and task "
                                         "group (and the generator's nested state)",
    "KF-C11-abandon-leak": "after an early break the stream's scope stays entered in the consumer's context until aclose()",
    "KF-C11-cross-task-reset": "consuming (or closing) a stream from a task other than the one that pulled the first "
                               "item fails with ValueError (context token reset in a different Context) and the stream's "
                               "scope never completes",
    "KF-C11-unstarted-close": "a stream closed before its first item never enters its pre-built scope, so the creator "
                              "scope's completion never fires",
}


def kf_classify(case):
    """deviation case -> listed finding ids, or None when a differing field is not covered by any of them"""
    place = case["init"]["place"]
    act = case["action"].split("_KF_")[0]
    obs, intended = case["observed"], case["intended"]
    out = set()
    if place == "other_task" and obs["res"][0] == "exc" and not obs["s1"] and \
            all(path.startswith("res") or path == "s1" for path in case["diff"]):
        return ["KF-C11-cross-task-reset"]
    for path in case["diff"]:
        if path in ("res[3]", "res[4]") and act == "Pull" and place == "other_task":
            out.add("KF-C11-gen-sees-consumer-state")
        elif path == "res[3]" and act == "Pull" and place != "same":
            out.add("KF-C11-gen-sees-consumer-state")
        elif path.startswith("cons") and act == "Pull" and place != "other_task":
            out.add("KF-C11-consumer-sees-stream-scope")
        elif path.startswith("cons") and act == "Abandon" and place != "other_task":
            out.add("KF-C11-abandon-leak")
        elif place == "other_task" and (path in ("res[1]", "s1")) and obs["res"][0] in ("exc",) and not obs["s1"]:
            out.add("KF-C11-cross-task-reset")
        elif place == "other_task" and path == "s1" and not obs["s1"]:
            out.add("KF-C11-cross-task-reset")
        elif act == "Close" and path == "s1" and not obs["s1"] and obs["res"][0] == "closed":
            out.add("KF-C11-unstarted-close")
        else:
            return None
    return sorted(out) or None


class StreamsDriver:
    def reset(self, init):
        self.w = w = World(types=("A",))
        self.place, self.n, self.ending, self.nested = init["place"], init["n"], init["ending"], init["nested"]
        self.done = []
        self.k = 0
        drv = self

        async def gen(tag):
            assert tag == "t"
            for i in range(drv.n):
                if drv.nested and i == 1:
                    with ctx.scope("s3", interp.A(v=3)):
                        yield (i, w.lookup("A"), w.metrics_label())
                else:
                    yield (i, w.lookup("A"), w.metrics_label())
            if drv.ending == "error":
                raise w.err_of("gen")

        self.gen = gen
        w.start("1")
        w.do("1", "ascope", 1, [("A", 1)], None, lambda m: drv.done.append(1))

        def mk():
            drv.stream = ctx.stream(gen, "t")

        w.do("1", "call", mk)
        if self.place != "same":
            w.do("1", "leave", "return")
        if self.place == "other_scope":
            w.do("1", "ascope", 2, [("A", 2)], None, None)

    @staticmethod
    def _m(x):
        return STREAM if x in ("gen", "unknown-group") else x

    def _cons(self):
        p = self.w.at.get("1")
        if p is None:
            return ("busy", self.w.status("1"), 0)
        return (p["A"], self._m(p["ms"]), self._m(p["tg"]))

    def _run(self, fn):
        if self.place == "other_task":
            self.k += 1
            name = f"n{self.k}"
            self.w.do("1", "plainspawn", name)
            self.w.do(name, "call", fn)
            if self.w.status(name) == "gate":
                self.w.do(name, "leave", "return")
        else:
            self.w.do("1", "call", fn)

    def apply(self, name, args):
        w = self.w
        res = []
        if name == "Pull":
            async def nx():
                try:
                    i, a, ms = await self.stream.__anext__()
                    res.append(("item", i, a, self._m(ms)))
                except StopAsyncIteration:
                    res.append(("stop", 0, 0, 0))
                except BaseException as e:  # noqa: BLE001
                    res.append(("err", 0, 0, 0) if e is w.errs.get("gen") else ("exc", 0, 0, 0))
                    if res[-1][0] == "exc":
                        self.last_exc = repr(e)[:200]
            self._run(nx)
        elif name == "Close":
            async def cl():
                try:
                    await self.stream.aclose()
                    res.append(("closed", 0, 0, 0))
                except BaseException as e:  # noqa: BLE001
                    res.append(("exc", 0, 0, 0))
                    self.last_exc = repr(e)[:200]
            self._run(cl)
        elif name == "Abandon":
            res.append(("abandoned", 0, 0, 0))
        else:
            raise ValueError(name)
        w.loop.quiesce()
        return dict(res=res[0] if res else ("hang", 0, 0, 0), cons=self._cons(), s1=bool(self.done))

    def close(self):
        self.w.close()


def run(rep, work, tier, seed):
    mi = 2 if tier == "quick" else 3
    leg_m(rep, work, SPEC, f"mc_{tier}", cfg_text(dict(MaxItems=mi + 1, Dev=False, Bug="none"), invariants=INVS),
          expect_actions=["Pull", "Close", "Abandon"])
    if tier == "thorough":
        for bug, inv in (("reorder", ["ItemsInOrder"]), ("swallow_error", ["EndsWithError", "ItemsInOrder"]),
                         ("never_completes", ["StreamScopeCompletes"])):
            leg_mutant(rep, work, SPEC, f"mutant_{bug}", cfg_text(dict(MaxItems=2, Dev=False, Bug=bug), invariants=INVS), inv)
    leg_r(rep, work, SPEC, f"conf_{tier}", cfg_text(dict(MaxItems=mi, Dev=True, Bug="none"), invariants=INVS),
          StreamsDriver, kf_text=KF_TEXT, kf_classify=kf_classify, world=True)
    rep.assumptions += [
        "the generator double yields, as each item, what it observes itself (state lookup, metrics scope), optionally "
        "from inside a nested scope; consumption from 'other tasks' pulls every item from a fresh task",
        "garbage-collection of an abandoned stream (async-generator finaliser) is replaced by explicit aclose()",
        "the deviation actions havoc only: the state value seen by the generator, the consumer's probe triple between "
        "items / after break, the end result + completion when consumed across tasks, completion after an unstarted close",
    ]
    return rep.finish(exhaustive=True,
                      rule="every scenario (4 consumption places x item counts x normal/error end x nested scope) x every "
                           "sequence of pull / abandon / close; every edge replayed; deviations classified into listed "
                           "known findings")


def replay(rep, record):
    from harness.graph import parse_label
    d = StreamsDriver()
    d.reset(record["init"])
    print("  scenario:", {k: record["init"][k] for k in ("place", "n", "ending", "nested")})
    try:
        for lab in record["path"]:
            name, args = parse_label(lab)
            print(f"  {lab} -> {d.apply(name.split('_KF_')[0], args)}")
    finally:
        d.close()
