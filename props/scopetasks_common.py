"""Driver shared by C06 / C07 (ScopeTasks.tla): real tasks, async/sync scopes, ctx.spawn, failures, cancellation."""
import asyncio

from haiway import ctx

from harness.interp import World


class ScopeTasksDriver:
    def reset(self, init):
        self.w = World(types=(), probing=False)
        self.n = len(init["pc"])
        self.nsid = 0
        self.last_check = "none"
        self.w.start("1")

    def _obs(self, check="none"):
        w = self.w
        pcs = []
        for t in range(1, self.n + 1):
            st = w.status(str(t))
            pcs.append({"busy": "waiting"}.get(st, "failed" if st.startswith("failed") else st))
        o = dict(pc=tuple(pcs), check=check)
        bad = [str(c.get("message")) for c in w.loop.exceptions if "never retrieved" not in str(c.get("message"))]
        if bad:
            o["loop_errors"] = bad
        return o

    def apply(self, name, args):
        w = self.w
        t = str(args[0])
        if name == "Open":
            self.nsid += 1
            if args[1]:
                w.do(t, "ascope", self.nsid, [], None, None)
            else:
                w.do(t, "sscope", self.nsid, [], None)
        elif name == "Spawn":
            w.do(t, "spawn", str(args[1]))
        elif name == "SetWill":
            w.do(t, "will", lambda: next((str(u) for u in range(1, self.n + 1) if w.status(str(u)) == "unborn"), None))
        elif name in ("Leave", "End"):
            w.do(t, "leave", "return")
        elif name == "Fail":
            w.do(t, "leave", "E")
        elif name == "Cancel":
            w.cancel(t)
        elif name in ("CtxCancel", "Check"):
            out = []

            def call():
                if name == "CtxCancel":
                    ctx.cancel()
                try:
                    ctx.check_cancellation()
                    out.append("passed")
                except asyncio.CancelledError:
                    out.append("raised")

            w.do(t, "call", call)
            return self._obs(out[0] if out else "not-called")
        else:
            raise ValueError(name)
        return self._obs()

    def close(self):
        self.w.close()


def replay(rep, record):
    from harness.graph import parse_label
    d = ScopeTasksDriver()
    d.reset(record["init"])
    try:
        for lab in record["path"]:
            name, args = parse_label(lab)
            print(f"  {lab} -> {d.apply(name, args)}")
    finally:
        d.close()
