"""Driver shared by C06 / C07 (ScopeTasks.tla): real tasks, async/sync scopes, ctx.spawn, failures, cancellation."""
import asyncio

from haiway import ctx

from harness.interp import World


class _Handled(Exception):
    pass


class ScopeTasksDriver:
    def reset(self, init):
        self.w = World(types=(), probing=False)
        self.n = len(init["pc"])
        self.nsid = 0
        self.last_check = "none"
        self.w.start("1")

    def _obs(self, check="none"):
        w = self.w
        pcs = []
        for t in range(1, self.n + 1):
            st = w.status(str(t))
            pcs.append({"busy": "waiting"}.get(st, "failed" if st.startswith("failed") else st))
        o = dict(pc=tuple(pcs), check=check)
        bad = [str(c.get("message")) for c in w.loop.exceptions if "never retrieved" not in str(c.get("message"))]
        if bad:
            o["loop_errors"] = bad
        return o

    def apply(self, name, args):
        w = self.w
        t = str(args[0])
        if name == "Open":
            self.nsid += 1
            if args[1]:
                w.do(t, "ascope", self.nsid, [("A", 1 + self.nsid % 2)], None, None)      # every scope re-provides the state type its enclosing scope holds
            else:
                w.do(t, "sscope", self.nsid, [("A", 1 + self.nsid % 2)], None)
        elif name == "Spawn":
            w.do(t, "spawn", str(args[1]))
        elif name == "SetWill":
            w.do(t, "will", lambda: next((str(u) for u in range(1, self.n + 1) if w.status(str(u)) == "unborn"), None))
        elif name == "SetTurn":
            w.do(t, "turn")
        elif name in ("Leave", "End"):
            w.do(t, "leave", "return")
        elif name == "Fail":
            w.do(t, "leave", "E")
        elif name == "Cancel":
            w.cancel(t)
        elif name in ("CtxCancel", "Check"):
            out = []

            self.ncc = getattr(self, "ncc", 0) + 1
            through = name == "CtxCancel" and self.ncc % 2 == 1

            async def call():
                if name == "CtxCancel":
                    ctx.cancel()
                if through:
                    # between the request and the check - no suspension in between - a nested scope fails and the
                    # failure is handled: a request that has been made stays made
                    try:
                        async with ctx.scope("handled"):
                            raise _Handled()
                    except _Handled:
                        pass
                try:
                    ctx.check_cancellation()
                    out.append("passed")
                except asyncio.CancelledError:
                    out.append("raised")

            w.do(t, "call", call)
            return self._obs(out[0] if out else "not-called")
        else:
            raise ValueError(name)
        return self._obs()

    def close(self):
        self.w.close()


def replay(rep, record):
    from harness.graph import parse_label
    d = ScopeTasksDriver()
    d.reset(record["init"])
    try:
        for lab in record["path"]:
            name, args = parse_label(lab)
            print(f"  {lab} -> {d.apply(name, args)}")
    finally:
        d.close()


def gen_trace(rnd, ntasks=5, nops=30, max_depth=3, max_scopes=8):
    """a random program of up to 5 tasks: async / sync scopes, ctx.spawn trees, normal leaves (with waiting), ends,
    failures, cancellations (asyncio and ctx.cancel), checks and one testament, recorded from the real library.  What is
    enabled is read off the real tasks' statuses; only the scope stacks are mirrored."""
    d = ScopeTasksDriver()
    d.reset(dict(pc=[0] * ntasks))
    w = d.w
    tr = [dict(ev="Init", init={})]
    stack = {t: [] for t in range(1, ntasks + 1)}  # per task: list of is_async flags
    waiting = set()
    nsid = 0
    will_set = False
    turned = None

    def sync_stacks():
        # a task that was waiting for members and is back at its gate has left that scope
        for t in list(waiting):
            st = w.status(str(t))
            if st == "gate":
                stack[t].pop()
                waiting.discard(t)
            elif st != "busy":
                waiting.discard(t)

    try:
        for _ in range(nops):
            sync_stacks()
            st = {t: w.status(str(t)) for t in range(1, ntasks + 1)}
            gate = [t for t in st if st[t] == "gate"]
            busy = [t for t in st if st[t] == "busy"]
            unborn = [t for t in st if st[t] == "unborn"]
            ch = []
            for t in gate:
                if t == turned:
                    # a task that answers cancellation with an error of its own: a leaf, never cancelled directly
                    if unborn:
                        ch += [("Spawn", [t, unborn[0]])]
                    ch += [("End", [t]), ("Check", [t])]
                    if rnd.random() < 0.1:
                        ch += [("Fail", [t])]
                    continue
                if turned is None and t != 1 and not stack[t] and will_set != t and rnd.random() < 0.3:
                    ch += [("SetTurn", [t])] * 2
                if len(stack[t]) < max_depth and nsid < max_scopes:
                    ch += [("Open", [t, True])] * 2 + [("Open", [t, False])]
                if unborn:
                    ch += [("Spawn", [t, unborn[0]])] * 3
                if stack[t]:
                    ch += [("Leave", [t])] * 2
                elif t != 1:
                    ch += [("End", [t])]
                ch += [("Check", [t])]
                if rnd.random() < 0.2:   # destructive operations are rare, so that programs grow before they collapse
                    if t != 1:
                        ch += [("Fail", [t])]
                    ch += [("Cancel", [t]), ("CtxCancel", [t])]
                if not will_set and unborn and not any(stack[t]):
                    ch += [("SetWill", [t])]
            for t in busy:
                if rnd.random() < 0.3:
                    ch += [("Cancel", [t])]
            if not ch:
                break
            name, args = rnd.choice(ch)
            t = args[0]
            if name == "Open":
                if args[1] and will_set == t:
                    continue
                nsid += 1
                stack[t].append(args[1])
            elif name == "Leave":
                if stack[t][-1]:
                    waiting.add(t)   # resolved by sync_stacks once the real task is back at its gate
                else:
                    stack[t].pop()
            elif name == "SetWill":
                will_set = t
            elif name == "SetTurn":
                turned = t
            o = d.apply(name, tuple(args))
            if will_set and w.status(str(will_set)) not in ("gate", "busy"):
                will_set = False if w.status(str(will_set)) in ("cancelled", "done", "failed") or True else will_set
            tr.append(dict(ev=name, args=args, obs=dict(pc=list(o["pc"]), check=o["check"])))
    finally:
        d.close()
    return tr


TRACE_KW = dict(
    variables=["pc", "stack", "tg", "grp", "origin", "owner", "residue", "extc", "will", "turn", "nsid", "nops", "obs"],
    constants=dict(NTasks=5, MaxDepth=3, MaxScopes=8, MaxOps=100000, Bug='"none"', Turn="TRUE"),
    config_vars=[], actions=dict(Open=2, Spawn=2, Leave=1, End=1, Fail=1, Cancel=1, CtxCancel=1, Check=1, SetWill=1, SetTurn=1),
    invariants=["NoOrphans", "NoIdleWait", "NotSwallowed", "NoEscape"])
