"""C06 - structured concurrency: spawned tasks never outlive their scope."""
import random

from harness.legs import cfg_text, gen_traces, leg_m, leg_mutant, leg_r, leg_t_gen
from props.scopetasks_common import ScopeTasksDriver
from props.scopetasks_common import replay as _replay_tasks

SPEC = "ScopeTasks"
MANIFEST = dict(
    text="ScopeTasks.tla models tasks opening async scopes (each owning a task group) and sync scopes, spawning through "
         "the context into the innermost async scope on the spawner's chain (inherited by grand-children, through sync "
         "scopes; detached when there is none), leaving, ending, failing and being cancelled; all tasks obey "
         "cancellation so aborts cascade at once (Doomed), and 'waiting' (left normally, members still running) is "
         "the one blocked state. TLC checks NoOrphans (a live member's scope is still open by a live owner), NoIdleWait "
         "(leaving terminates as soon as the members have), SpawnTarget and the action property DetachedUntouched over "
         "all interleavings of task steps, releases and failures within the bounds; every edge is replayed into real "
         "tasks and after EVERY action the status of EVERY task (at gate / waiting / done / failed / cancelled) is "
         "compared with the model. Cross legs: one scope step by step with disposables and faults (ScopeLife.tla) and a "
         "scope living inside a context stream whose generator spawns a task (Streams.tla: SpawnedSettled).",
    technique="TLA+ spec + TLC exhaustive model checking of task interleavings and failures; edge-complete graph replay "
              "into the implementation through a gated interpreter",
    design="5/C06")
INVS = ["TypeOK", "NoOrphans", "NoIdleWait", "SpawnTarget", "NotSwallowed", "NoEscape"]
PROPS = ["DetachedUntouched", "CancelCascades", "CheckAgrees"]
ACTIONS = ["Open", "Spawn", "Leave", "End", "Fail", "Cancel", "CtxCancel", "Check", "SetWill"]


def run(rep, work, tier, seed):
    if tier == "quick":
        mc = dict(NTasks=4, MaxDepth=2, MaxScopes=3, MaxOps=8, Bug="none", Turn=False)
        conf = dict(NTasks=3, MaxDepth=2, MaxScopes=3, MaxOps=6, Bug="none", Turn=False)
    else:
        mc = dict(NTasks=5, MaxDepth=2, MaxScopes=4, MaxOps=8, Bug="none", Turn=False)
        conf = dict(NTasks=4, MaxDepth=2, MaxScopes=3, MaxOps=7, Bug="none", Turn=False)
    rep.extra["constants"] = dict(model=mc, conformance=conf)
    leg_m(rep, work, SPEC, f"mc_{tier}", cfg_text(mc, spec="Spec", invariants=INVS, properties=PROPS),
          expect_actions=ACTIONS, timeout=3000)
    if tier == "thorough":
        small = dict(NTasks=3, MaxDepth=2, MaxScopes=2, MaxOps=5, Turn=False)
        leg_mutant(rep, work, SPEC, "mutant_no_wait", cfg_text(dict(small, Bug="no_wait"), invariants=INVS), ["NoOrphans"])
        leg_mutant(rep, work, SPEC, "mutant_will_detached", cfg_text(dict(small, MaxOps=6, Bug="will_detached"), invariants=INVS),
                   ["NoEscape"])
        leg_mutant(rep, work, SPEC, "mutant_spawn_detached",
                   cfg_text(dict(small, Bug="spawn_detached"), spec="Spec", invariants=INVS, properties=PROPS),
                   ["CancelCascades", "NoOrphans", "SpawnTarget", "DetachedUntouched", "NoEscape"])
    leg_r(rep, work, SPEC, f"conf_{tier}", cfg_text(conf, invariants=INVS), ScopeTasksDriver, world=True)
    # leg T: random programs of 5 tasks (~30 operations) recorded from the real library, validated by a trace module
    # generated from ScopeTasks.tla (existential acceptance: the spec is nondeterministic where the stdlib is)
    from props.scopetasks_common import TRACE_KW, gen_trace
    rnd = random.Random(seed * 29 + 1)
    traces = gen_traces(rep, lambda: gen_trace(rnd), 150 if tier == "quick" else 2000)
    leg_t_gen(rep, work, SPEC, f"trace_{tier}", traces, **TRACE_KW)
    # one scope step by step (ScopeLife.tla): tasks spawned by the body and by a disposable while the scope is still
    # being entered; whenever the block is left with a failure - incl. a failed or cancelled enter - they are cancelled,
    # not awaited
    from props.scopelife_common import ScopeLifeDriver
    life = dict(ND=2, NC=1 if tier == "quick" else 2, Behaviours=["ok", "fail", "susp"], Bug="none")
    life_invs = ["TypeOK", "CancelAbortsMembers", "NoWaitAfterFailure", "CancelNotLost", "Restored"]
    leg_m(rep, work, "ScopeLife", f"life_mc_{tier}", cfg_text(life, invariants=life_invs),
          expect_actions=["Enter", "Cancel", "Leave", "Spawn", "ChildEnd", "ChildFail"], timeout=3000)
    if tier == "thorough":
        leg_mutant(rep, work, "ScopeLife", "mutant_rollback_awaits_members",
                   cfg_text(dict(life, NC=1, Bug="rollback_awaits_members"), invariants=life_invs + ["RollbackAbortsMembers"]),
                   ["RollbackAbortsMembers"])
    leg_r(rep, work, "ScopeLife", f"life_conf_{tier}", cfg_text(life, invariants=life_invs), ScopeLifeDriver, world=True)
    # a scope that lives inside a context stream (Streams.tla): the generator spawns a task into the stream's scope; when
    # the stream ends, is closed, or the pulling task is cancelled, that scope is left and the task has finished with it
    from props.c11 import StreamsDriver
    st_invs = ["TypeOK", "SpawnedSettled", "StreamScopeCompletes", "ConsumerIntact"]
    st = dict(MaxItems=2 if tier == "quick" else 3, Poll=False, Bug="none")
    leg_m(rep, work, "Streams", f"stream_mc_{tier}", cfg_text(st, invariants=st_invs),
          expect_actions=["Pull", "Release", "EndSpawned", "CancelPull", "Close"])
    leg_r(rep, work, "Streams", f"stream_conf_{tier}", cfg_text(st, invariants=st_invs), StreamsDriver, world=True)
    rep.assumptions += [
        "spawned coroutines are gated doubles that obey cancellation at once (a task that swallows cancellation keeps "
        "its scope waiting by design); 'blocking until released' = parked at its gate",
        "a failing task raises an Exception that unwinds every scope it has open (user code catching it is out of scope)",
        "CPython 3.12 asyncio.TaskGroup semantics (a member's error never surfaces through haiway: it shows as a "
        "cancelled owner, or is swallowed when the owner was already waiting)",
    ]
    return rep.finish(exhaustive=True,
                      rule="all interleavings of open(async|sync) / spawn / leave / end / fail / cancel / ctx.cancel / check "
                           "by up to NTasks tasks (spawn trees of any shape) within MaxOps; every edge replayed, every "
                           "task's status compared after every action")


def replay(rep, record):
    if record.get("spec") == "ScopeLife":
        from props.scopelife_common import replay as life_replay
        return life_replay(rep, record)
    if record.get("spec") == "Streams":
        from props.c11 import replay as stream_replay
        return stream_replay(rep, record)
    return _replay_tasks(rep, record)
