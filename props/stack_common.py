"""Driver shared by C12 / C14 / C15 / C16 (Stack.tla): the helper decorators stacked on one async function, called
sequentially in exact virtual time.  Each layer has to act on the layer below it - not on the innermost function."""
import asyncio

from harness.legs import cfg_text, leg_m, leg_mutant, leg_r
from harness.vloop import VClock, VLoop

SPEC = "Stack"
INVS = ["TypeOK", "CacheSharesBelow", "TimeoutBounds", "TimeoutBoundsRetried", "ThrottleSpaces", "OutcomeOrigin",
        "RetryRetries"]
T0 = 1000.0
BASE = dict(Gaps=[0, 3, 30], Durs=[0, 2, 7], T=5, P=20, MaxInv=4)


class Err(Exception):
    def __bool__(self):
        return False    # exceptions are user objects too: nothing may decide by their truthiness

    def __eq__(self, other):
        return isinstance(other, BaseException)     # exceptions that compare equal to each other (identity is what counts)

    def __hash__(self):
        return 19


class StackDriver:
    def __init__(self, consts):
        self.T, self.P = consts["T"], consts["P"]
        self.loop = None
        self.clock = None

    def reset(self, init):
        import logging
        from haiway import cache, retry, throttle, timeout
        logging.getLogger().addHandler(logging.NullHandler())
        logging.getLogger().setLevel(logging.CRITICAL + 1)
        self.layers = list(init["layers"])
        self.loop = loop = VLoop(start=T0)
        self.clock = VClock(loop)
        self.clock.__enter__()
        self.starts = []
        self.seen = 0
        self.sc = []
        self.extra = []
        self.errs = {}
        drv = self

        async def f(x, *, tag):
            assert (x, tag) == (1, "t")
            k = len(drv.starts) + 1
            drv.starts.append(loop.time() - T0)
            if not drv.sc:
                drv.extra.append(k)  # an invocation the specification does not have
                dur, res = 0, "ok"
            else:
                dur, res = drv.sc.pop(0)
            if dur:
                await asyncio.sleep(dur)
            if res == "ok":
                return ("v", k)
            e = drv.errs[k] = Err(k)
            raise e

        fn = f
        for name in self.layers:
            if name == "cache":
                fn = cache(limit=1)(fn)
            elif name == "retry":
                fn = retry(limit=1)(fn)
            elif name == "timeout":
                fn = timeout(float(self.T))(fn)
            elif name == "throttle":
                fn = throttle(limit=1, period=float(self.P))(fn)
            else:
                raise ValueError(name)
        self.fn = fn

    def apply(self, name, args):
        if name != "Call":
            raise ValueError(name)
        gap, sc = args
        loop = self.loop
        loop.run_all(until=loop.time() + gap)
        self.sc.extend(tuple(b) for b in sc)  # what is left belongs to invocations still to come in the background
        n0 = self.seen
        t0 = loop.time() - T0
        got = []

        async def caller():
            try:
                got.append(("val", await self.fn(1, tag="t")))
            except BaseException as e:  # noqa: BLE001
                got.append(("exc", e))

        task = loop.create_task(caller())
        for _ in range(10000):
            loop.quiesce()
            if task.done():
                break
            nt = loop.next_timer()
            if nt is None:
                break
            loop.advance(max(nt, loop.time()))
        if not got:
            out = ("hang", 0)
        else:
            kind, v = got[0]
            if kind == "val":
                out = ("ok", v[1]) if isinstance(v, tuple) and len(v) == 2 and v[0] == "v" else ("foreign value", repr(v))
            elif isinstance(v, Err) and self.errs.get(v.args[0]) is v:
                out = ("err", v.args[0])
            elif isinstance(v, TimeoutError):
                out = ("timeout", 0)
            else:
                out = ("foreign exception", repr(v))
        self.seen = len(self.starts)
        o = dict(out=out, t0=t0, te=loop.time() - T0, n=len(self.starts) - n0, starts=tuple(self.starts))
        if self.extra:
            o["unexpected_invocations"] = list(self.extra)
        bad = [str(c.get("message")) for c in loop.exceptions if "never retrieved" not in str(c.get("message", ""))]
        if bad:
            o["loop_errors"] = bad
        return o

    def close(self):
        try:
            if self.loop is not None:
                self.loop.shutdown()
        finally:
            if self.clock is not None:
                self.clock.__exit__(None, None, None)


def stack_legs(rep, work, tier, kind):
    """model-check and replay the stacks that contain the decorator `kind` (two layers in the quick tier, three in the
    thorough tier); the design mutant `unwrap` (a layer acting on the innermost function instead of the layer below)
    must be rejected"""
    n = 2 if tier == "quick" else 3
    consts = dict(BASE, Stacks=f"<- Stacks_{kind}_{n}", MaxCalls=3, Bug="none")
    rep.extra.setdefault("constants", {})["stack"] = {k: v for k, v in consts.items()}
    leg_m(rep, work, SPEC, f"stack_{kind}_{tier}", cfg_text(consts, invariants=INVS), expect_actions=["Call"])
    if tier == "thorough":
        leg_mutant(rep, work, SPEC, "mutant_unwrap", cfg_text(dict(consts, Bug="unwrap"), invariants=INVS),
                   ["CacheSharesBelow", "TimeoutBounds", "TimeoutBoundsRetried", "ThrottleSpaces", "RetryRetries",
                    "OutcomeOrigin"])
    leg_r(rep, work, SPEC, f"stackconf_{kind}_{tier}", cfg_text(consts, invariants=INVS), lambda: StackDriver(consts))
    rep.assumptions.append(
        "stacked decorators (Stack.tla): calls are sequential, one argument key, cache limit 1 without expiration, "
        "retry limit 1 without delay, throttle limit 1; a deadline and a completion in the same instant are excluded")


def replay_stack(record):
    from harness.graph import parse_label
    d = StackDriver(BASE)
    d.reset(record["init"])
    try:
        for lab in record["path"]:
            name, args = parse_label(lab)
            print(f"  {lab} -> {d.apply(name, args)}")
    finally:
        d.close()
