"""C02 - leaving a scope restores the surrounding context on every exit path."""
import random

from harness.legs import cfg_text, gen_traces, leg_m, leg_mutant, leg_r, leg_t_gen
from props.scopelife_common import ScopeLifeDriver
from props.scopelife_common import replay as _replay_life


def replay(rep, record):
    if record.get("spec") == "Scopes":
        from props.c01 import replay as r
        return r(rep, record)
    if record.get("spec") == "Metrics":
        from props.c09 import replay as r9
        return r9(rep, record)
    return _replay_life(rep, record)

SPEC = "ScopeLife"
MANIFEST = dict(
    text="ScopeLife.tla models the life cycle of one async scope step by step (group enter, concurrent disposable "
         "enters, rollback of a failed or cancelled enter, body, concurrent disposable exits, task-group wait/abort, "
         "metrics and state reset) with every suspension point a state of its own; the environment releases suspended "
         "disposables with success or failure in any order, ends the body with return / Exception / BaseException, ends "
         "or fails a spawned task and cancels the task at any suspension point. TLC checks Restored, BodyExcIdentity "
         "and CancelNotLost (plus the C08 invariants) in every state; every edge is replayed into a real scope nested "
         "in an outer scope and a catch-all, and the probe triple (state lookups, metrics scope, task group) taken "
         "before entering is compared with the one taken right after the block was left, together with the identity "
         "of the exception that left it. Sync scopes and updates - and several nested blocks left by one Exception / "
         "BaseException up to a catch-all (Try / Raise, action property Restored) - are in Scopes.tla, checked by C01/C03. Also: one prepared update object in use twice at the same time (two tasks overlapping, each leaving first in turn; one task nested in itself) - refused or a block of its own, everybody gets back the context they had (directed programs validated against Scopes.tla).",
    technique="TLA+ spec + TLC exhaustive model checking of fault and cancellation placements; edge-complete graph "
              "replay into the implementation through gated doubles",
    design="5/C02")
INVS = ["TypeOK", "Restored", "BodyExcIdentity", "EnterOnce", "ExitOnce", "ExitArg", "EnterFailureNoBody",
        "SurfaceCleanup", "CancelNotLost", "CancelAbortsMembers", "NoWaitAfterFailure", "DisposableStateVisible"]
ALL = ["ok", "fail", "susp"]
ACTIONS = ["Enter", "Cancel", "Leave", "ReleaseEnter", "ReleaseExit", "Spawn", "ChildEnd", "ChildFail"]


def run(rep, work, tier, seed):
    if tier == "quick":
        mc = dict(ND=2, NC=2, Behaviours=ALL, Bug="none")
        confs = [("d1c1", dict(ND=1, NC=1, Behaviours=ALL, Bug="none")), ("d2c1", dict(ND=2, NC=1, Behaviours=ALL, Bug="none"))]
    else:
        mc = dict(ND=3, NC=2, Behaviours=ALL, Bug="none")
        confs = [("d2c2", dict(ND=2, NC=2, Behaviours=ALL, Bug="none")), ("d0c2", dict(ND=0, NC=2, Behaviours=ALL, Bug="none"))]
    rep.extra["constants"] = dict(model=mc, conformance=[c for _, c in confs])
    leg_m(rep, work, SPEC, f"mc_{tier}", cfg_text(mc, invariants=INVS), expect_actions=ACTIONS, timeout=3000)
    if tier == "thorough":
        small = dict(ND=2, NC=1, Behaviours=ALL)
        leg_mutant(rep, work, SPEC, "mutant_no_restore_on_failure",
                   cfg_text(dict(small, Bug="no_restore_on_failure"), invariants=INVS), ["Restored"])
        leg_mutant(rep, work, SPEC, "mutant_exit_failure_awaits_members",
                   cfg_text(dict(small, Bug="exit_failure_awaits_members"), invariants=INVS),
                   ["CancelAbortsMembers", "NoWaitAfterFailure", "DisposableStateVisible"])
        leg_mutant(rep, work, SPEC, "mutant_swallow_exit_cancel",
                   cfg_text(dict(small, Bug="swallow_exit_cancel"), invariants=INVS), ["CancelNotLost"])
    for name, conf in confs:
        leg_r(rep, work, SPEC, f"conf_{name}_{tier}", cfg_text(conf, invariants=INVS), ScopeLifeDriver, world=True)
    # sync scopes, updates and several nested blocks left by one Exception / BaseException up to a catch-all: Scopes.tla
    # (Try / Raise with the action property Restored), replayed on a single task
    from props.scopes_common import ScopesDriver
    sc = dict(NTasks=1, Types=["A", "B"], Vals=[1, 2], MaxDepth=3, MaxOps=4 if tier == "quick" else 5, SupKind="tiny", Prep=False, Threads=False, Bug="none")
    leg_m(rep, work, "Scopes", f"scopes_mc_{tier}", cfg_text(sc, spec="Spec", invariants=["TypeOK", "LexicalLookup"],
                                                              properties=["Restored"]), expect_actions=["Try", "Raise", "Leave"])
    leg_r(rep, work, "Scopes", f"scopes_conf_{tier}", cfg_text(sc, invariants=["TypeOK"]), lambda: ScopesDriver(("A", "B")), world=True)
    # block objects prepared in one place and entered in another; a refused second entering of an async scope object
    # leaves the surrounding context (state, metrics scope, task group) as it was
    sp = dict(sc, MaxDepth=2, MaxOps=4 if tier == "quick" else 5, Prep=True, Threads=False)
    leg_m(rep, work, "Scopes", f"scopes_prep_mc_{tier}", cfg_text(sp, spec="Spec", invariants=["TypeOK", "LexicalLookup"],
                                                                   properties=["Restored", "Isolation"]),
          expect_actions=["Prepare", "EnterPrepared", "ReEnter"])
    leg_r(rep, work, "Scopes", f"scopes_prep_conf_{tier}", cfg_text(sp, invariants=["TypeOK"]), lambda: ScopesDriver(("A", "B")),
          world=True)
    # one prepared update object in use twice at the same time - by two tasks whose blocks overlap (each leaving first in
    # turn), by one task nested in itself: refused, or let in as a block of its own; either way everybody gets back the
    # context they had (directed programs recorded from the library, validated against Scopes.tla)
    from harness.legs import OPT
    if not OPT:      # (the refusal is an `assert`)
        from props.scopes_common import TRACE_KW as SC_KW, shared_update_traces
        leg_t_gen(rep, work, "Scopes", f"shared_update_{tier}", shared_update_traces(), **SC_KW)
    # leg T: 4 disposables / 3 spawned tasks, random environment moves among those the real scope offers
    from props.scopelife_common import TRACE_KW as LIFE_KW, gen_trace as life_trace
    rnd = random.Random(seed * 43 + 7)
    traces = gen_traces(rep, lambda: life_trace(rnd), 200 if tier == "quick" else 3000)
    leg_t_gen(rep, work, "ScopeLife", f"trace_{tier}", traces, **LIFE_KW)
    # leaving a scope must not fail because of the completion bookkeeping either (that would leave the state un-restored):
    # the scope forest with scopes that outlive their ancestors (Metrics.tla, C09's configurations, replayed here too)
    from props.metrics_common import MetricsDriver
    minv = ["TypeOK", "CbAtMostOnce", "CbAfterSubtree", "ExitNeverFails"]
    for nm, conf in (("metrics_wide", dict(NTasks=3, N=3, MaxOps=7, MaxRec=0, MaxT=0, MTypes=["Cat"], Kinds=["s"], Prep=False, Threads=False, Bug="none")),
                     ("metrics", dict(NTasks=2, N=3, MaxOps=6, MaxRec=0, MaxT=0, MTypes=["Cat"], Kinds=["s", "a"], Prep=False, Threads=False, Bug="none"))):
        leg_r(rep, work, "Metrics", f"{nm}_{tier}", cfg_text(conf, invariants=minv), lambda: MetricsDriver(["Cat"]),
              internal=["RunCb", "Finish"], world=True)
    rep.assumptions += [
        "spawned tasks obey cancellation at once; they end or fail only while the parent is in its body or waiting for them",
        "one external cancellation per run; a cancellation that arrives while asyncio's TaskGroup is already aborting "
        "because a spawned task failed is absorbed by the stdlib (CPython 3.12) - modelled as such (lostC), excluded "
        "from CancelNotLost",
        "exceptions raised by logging handlers inside the metrics exit are not modelled",
    ]
    return rep.finish(exhaustive=True,
                      rule="every behaviour of one async scope with ND disposables (each ok/fail/suspend in enter and in "
                           "exit, released in any order with either result) x body outcome x spawned-task end/failure x one "
                           "cancellation at any suspension point; every edge replayed")
