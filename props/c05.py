"""C05 - State construction accepts exactly conforming values and stores them faithfully."""
import random

from haiway import MISSING

from harness.legs import cfg_text, leg_m, leg_mutant, leg_r
from props.values_common import is_frozen, make_class, make_generic, make_generic_subclass, py_to_val, val_to_py

SPEC = "Values"
MANIFEST = dict(
    text="Values.tla gives annotation and value terms and the recursive operators Conforms / Contested / Norm, written "
         "from the typing rules and the documentation (independent of validation.py): mappings iterate key/value pairs, "
         "tuples are positional with exact length, unions take the first matching alternative, containers are stored in "
         "immutable form with nothing added, dropped, split or re-keyed. Points where typing rules and the library's "
         "documented practice differ (==-equal Literal members of another type, a list for a tuple, str for Sequence) "
         "are declared Contested: both verdicts accepted, faithfulness still enforced. TLC enumerates every "
         "(annotation, value) pair of the bounded term sets (~10^4 pairs, annotation depth <= 2) and checks algebraic "
         "obligations on the oracle (ExactlyConforming, NormConforms, NormIdempotent, Faithful, StoredImmutable, "
         "UnionIsDisjunction); every pair is then replayed into real dynamically built State classes four ways (constructor "
         "argument of a plain class, class default, GHolder[annotation], a subclass of GHolder[annotation]) which have to "
         "agree, and verdict + stored term are compared with the successor state. The vocabulary includes the plain "
         "instance-checked types (complex, range, UUID, date / datetime, time, timedelta, timezone, Path, Pattern), "
         "Callable, type, plain and parametrised type aliases (haiway.frozenlist[x], a local Pair[x]). In the thorough tier "
         "hypothesis-style random terms up to depth 4 are judged by TLC evaluating the same operators (ValuesTrace).",
    technique="TLA+ spec used as exhaustively self-checked executable oracle (TLC enumerates all term pairs); every pair "
              "replayed into the implementation; TLC evaluates Conforms/Norm on recorded random cases",
    design="5/C05")
INVS = ["ExactlyConforming", "NormConforms", "NormIdempotent", "Faithful", "StoredImmutable", "UnionIsDisjunction"]
NOVAL = dict(k="nothing", v=0, xs=())


def construct(ann, val, use_default, generic=False):
    """-> observation [acc, stored]"""
    try:
        pyval = val_to_py(val)
        if generic:
            try:
                cls = make_generic_subclass(ann) if generic == "sub" else make_generic(ann)
            except Exception:  # noqa: BLE001  - an annotation that cannot be a type argument: plain holder instead
                cls = make_class(ann)
            inst = cls(x=pyval)
        elif use_default:
            cls = make_class(ann, default=pyval)
            inst = cls()
        else:
            cls = make_class(ann)
            inst = cls(x=pyval)
    except Exception as e:  # noqa: BLE001  - construction refused (or the annotation itself is unsupported)
        return dict(acc="no", stored=NOVAL)  # refused - the property does not say with which exception type
    stored = inst.x
    term = py_to_val(stored)
    if val["xs"] and not is_frozen(stored) and ann["k"] != "any":
        term = dict(term, k=term["k"] + "!mutable")
    return dict(acc="yes", stored=term)


FORMS = ("plain", "default", "generic", "generic-sub")


class ValuesDriver:
    """every pair goes through every form of holder class: the value passed to the constructor of a plain class, given
    as the class default, passed to GHolder[annotation], passed to a subclass of GHolder[annotation]; the forms have to
    agree (and the specification judges what they agree on)"""

    def reset(self, init):
        self.ann, self.val = init["ann"], init["val"]

    def apply(self, name, args):
        assert name == "Construct"
        out = {}
        for form in FORMS:
            if form == "default" and self.val["k"] == "missing":
                continue  # MISSING as a default means "no default"
            out[form] = construct(self.ann, self.val, form == "default",
                                  {"generic": True, "generic-sub": "sub"}.get(form, False))
        first = out["plain"]
        differing = {f: o for f, o in out.items() if o != first}
        if differing:
            return dict(first, forms_disagree=dict(plain=first, **differing))
        return first

    def close(self):
        pass


def run(rep, work, tier, seed):
    depth = 1 if tier == "quick" else 2
    c = dict(Depth=depth, Bug="none")
    rep.extra["constants"] = c
    leg_m(rep, work, SPEC, f"mc_{tier}", cfg_text(dict(Depth=2, Bug="none"), invariants=INVS), expect_actions=["Construct"])
    if tier == "thorough":
        for bug, inv in (("union_last", ["NormConforms", "Faithful", "NormIdempotent", "StoredImmutable"]),
                         ("set_keeps_raw", ["StoredImmutable", "NormIdempotent", "NormConforms"]),
                         ("tuple_len_ignored", ["ExactlyConforming"])):
            try:
                leg_mutant(rep, work, SPEC, f"mutant_{bug}", cfg_text(dict(Depth=2, Bug=bug), invariants=INVS), inv)
            except Exception as e:  # noqa: BLE001
                if "not rejected" in str(e):
                    rep.extra.setdefault("design_mutants_equivalent", []).append(bug)
                else:
                    raise
    leg_r(rep, work, SPEC, f"conf_{tier}", cfg_text(c, invariants=INVS), ValuesDriver, nproc=8)
    rep.assumptions += [
        "annotation vocabulary of the enumerated terms: None, bool, int, float, str, bytes, Any, Missing, Enum, nested "
        "State (and a subclass instance), Literal, Sequence, Set, frozenset, Mapping, fixed and variadic tuple, Union / "
        "Optional, a plain type alias; old typing.List-style and bare generics are out of scope",
        "contested points (accepted either way): ==-equal Literal member of another type, list for tuple[...], str/bytes "
        "for Sequence[...]; NaN excluded",
        "every pair is constructed four ways - constructor argument of a plain class, class default, GHolder[annotation], "
        "a subclass of GHolder[annotation] - and the four have to agree",
    ]
    return rep.finish(exhaustive=True,
                      rule="every (annotation term, value term) pair of the bounded sets is one initial state; one Construct "
                           "edge each (two where contested); every edge replayed into a real State subclass")


def replay(rep, record):
    init = record["init"]
    print("  annotation:", init["ann"])
    print("  value     :", init["val"])
    d = ValuesDriver()
    d.reset(init)
    print("  construct (all forms) ->", d.apply("Construct", ()))
