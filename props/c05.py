"""C05 - State construction accepts exactly conforming values and stores them faithfully."""
import random

from haiway import MISSING, State

import json

from harness.legs import cfg_text, gen_traces, leg_m, leg_mutant, leg_r, leg_t_gen
from props.values_common import ann_to_py, is_frozen, make_class, make_generic, make_generic_nested, make_generic_subclass, py_to_val, val_to_py

SPEC = "Values"
MANIFEST = dict(
    text="Values.tla gives annotation and value terms and the recursive operators Conforms / Contested / Norm, written "
         "from the typing rules and the documentation (independent of validation.py): mappings iterate key/value pairs, "
         "tuples are positional with exact length, unions take the first matching alternative, containers are stored in "
         "immutable form with nothing added, dropped, split or re-keyed. Points where typing rules and the library's "
         "documented practice differ (==-equal Literal members of another type, a list for a tuple, str for Sequence) "
         "are declared Contested: both verdicts accepted, faithfulness still enforced. TLC enumerates every "
         "(annotation, value) pair of the bounded term sets (~10^4 pairs, annotation depth <= 2) and checks algebraic "
         "obligations on the oracle (ExactlyConforming, NormConforms, NormIdempotent, Faithful, StoredImmutable, "
         "UnionIsDisjunction); every pair is then replayed into real dynamically built State classes four ways (constructor "
         "argument of a plain class, class default, GHolder[annotation], a subclass of GHolder[annotation]) which have to "
         "agree, and verdict + stored term are compared with the successor state. The vocabulary includes the plain "
         "instance-checked types (complex, range, UUID, date / datetime, time, timedelta, timezone, Path, Pattern), "
         "Callable, type, plain and parametrised type aliases (haiway.frozenlist[x], a local Pair[x]). Leg T: random "
         "(annotation, value) terms up to annotation depth 4 - mostly conforming values with deviations injected at "
         "every level - are constructed in the real library and judged by TLC evaluating the same operators on the "
         "recorded pair (generated trace module, Init bound to the recorded terms).",
    technique="TLA+ spec used as exhaustively self-checked executable oracle (TLC enumerates all term pairs); every pair "
              "replayed into the implementation; TLC evaluates Conforms/Norm on recorded random cases",
    design="5/C05")
INVS = ["ExactlyConforming", "NormConforms", "NormIdempotent", "Faithful", "StoredImmutable", "UnionIsDisjunction"]
NOVAL = dict(k="nothing", v=0, xs=())


def has_any(a):
    """what is accepted under Any (or as a callable / a class) is stored as given"""
    return a["k"] in ("any", "callable", "type") or any(has_any(x) for x in a["xs"])


def construct(ann, val, use_default, generic=False):
    """-> observation [acc, stored]"""
    try:
        pyval = val_to_py(val)
        if generic == "nested":
            try:
                outer, inner = make_generic_nested(ann)
            except Exception:  # noqa: BLE001  - an annotation that cannot be a type argument: plain holder instead
                inst = make_class(ann)(x=pyval)
            else:
                inst = outer(inner=inner(x=pyval)).inner
        elif generic:
            try:
                cls = make_generic_subclass(ann) if generic == "sub" else make_generic(ann)
            except Exception:  # noqa: BLE001  - an annotation that cannot be a type argument: plain holder instead
                cls = make_class(ann)
            inst = cls(x=pyval)
        elif use_default in ("sub", "sub-bare"):
            # a subclass that overrides only the DEFAULT of an attribute it inherits (re-annotated alike, or a bare
            # `x = value`): the subclass's default is what an instance built without arguments gets
            base = make_class(ann)
            ns = {"__module__": __name__, "x": pyval}
            if use_default == "sub":
                ns["__annotations__"] = {"x": ann_to_py(ann)}
            inst = type(State)("SubDefault", (base,), ns)()
        elif use_default:
            cls = make_class(ann, default=pyval)
            inst = cls()
        else:
            cls = make_class(ann)
            inst = cls(x=pyval)
    except Exception as e:  # noqa: BLE001  - construction refused (or the annotation itself is unsupported)
        return dict(acc="no", stored=NOVAL)  # refused - the property does not say with which exception type
    stored = inst.x
    term = py_to_val(stored)
    if val["xs"] and not is_frozen(stored) and not has_any(ann):
        term = dict(term, k=term["k"] + "!mutable")
    return dict(acc="yes", stored=term)


FORMS = ("plain", "default", "generic", "generic-sub", "generic-nested", "sub-default", "sub-default-bare")
_SWAP = {"pinst": "phollow", "phollow": "pinst", "pclass": "phollow", "int": "bool", "bool": "int", "state": "state2",
         "state2": "state", "list": "tuple", "tuple": "list", "set": "fset", "fset": "set", "date": "datetime",
         "datetime": "date", "func": "cls", "cls": "func", "none": "missing", "missing": "none"}


def look_alikes(val):
    """values easily mistaken for `val` by anything that remembers verdicts: the same Python class with another verdict
    (two instances of one class, one with the protocol's method attached and one without), ==-equal values of another
    type, the same elements in another container"""
    k = val["k"]
    out = []
    if k in _SWAP:
        out.append(dict(val, k=_SWAP[k]))
    if val["xs"]:
        first = val["xs"][0]
        if first["k"] in _SWAP and first["k"] != "pair":
            out.append(dict(val, xs=(dict(first, k=_SWAP[first["k"]]),) + tuple(val["xs"][1:])))
    return out


class ValuesDriver:
    """every pair goes through every form of holder class: the value passed to the constructor of a plain class, given
    as the class default, passed to GHolder[annotation], passed to a subclass of GHolder[annotation]; the forms have to
    agree (and the specification judges what they agree on)"""

    def reset(self, init):
        self.ann, self.val = init["ann"], init["val"]

    def _all_forms(self, val, forms=FORMS):
        out = {}
        for form in forms:
            if form in ("default", "sub-default", "sub-default-bare") and val["k"] == "missing":
                continue  # MISSING as a default means "no default"
            out[form] = construct(self.ann, val, {"default": True, "sub-default": "sub", "sub-default-bare": "sub-bare"}.get(form, False),
                                  {"generic": True, "generic-sub": "sub", "generic-nested": "nested"}.get(form, False))
        return out

    def apply(self, name, args):
        assert name == "Construct"
        out = self._all_forms(self.val)
        # the verdict belongs to the value: after the same classes have judged the value's look-alikes (same Python class,
        # ==-equal, same shape) they judge the value itself exactly as before
        kept = ("plain", "generic", "generic-sub", "generic-nested")     # the forms whose classes live on between constructions
        for other in look_alikes(self.val):
            self._all_forms(other, kept)
        again = self._all_forms(self.val, kept)
        if again != {f: out[f] for f in kept}:
            return dict(out["plain"], verdict_depends_on_history=dict(first=out, again=again))
        first = out["plain"]
        differing = {f: o for f, o in out.items() if o != first}
        if differing:
            return dict(first, forms_disagree=dict(plain=first, **differing))
        return first

    def close(self):
        pass


# ---- leg T: random terms beyond the enumerated sets (annotation depth up to 4), judged by TLC evaluating the same operators
PLAIN_KINDS = ["complex", "range", "uuid", "date", "datetime", "time", "timedelta", "timezone", "path", "pattern"]
LEAF_ANN = ["none", "bool", "int", "float", "str", "bytes", "any", "missing", "enum", "state", "callable", "type",
            "proto"] + PLAIN_KINDS


def A(k, xs=(), vs=()):
    return dict(k=k, xs=list(xs), vs=list(vs))


def V(k, p=0, xs=()):
    return dict(k=k, v=p, xs=list(xs))


LEAF_VAL = [V("none"), V("bool", 0), V("bool", 1), V("int", 0), V("int", 1), V("float", 15), V("str", 1), V("str", 2),
            V("bytes", 1), V("missing"), V("enumv", 1), V("state", 1), V("state2", 1), V("func", 1), V("cls", 1),
            V("pclass", 1), V("pinst", 1), V("phollow", 1)] + \
           [V(k, 1) for k in PLAIN_KINDS]


def rand_ann(rnd, depth):
    if depth <= 0 or rnd.random() < 0.25:
        if rnd.random() < 0.1:
            return A("lit", vs=[V("int", 1), V("str", 1)])
        return A(rnd.choice(LEAF_ANN))
    k = rnd.choice(["seq", "set", "fset", "vtuple", "alias", "flist", "pair", "swap", "tuple", "tuple", "map", "union", "union"])
    if k in ("seq", "vtuple", "alias", "flist", "pair"):
        return A(k, [rand_ann(rnd, depth - 1)])
    if k in ("set", "fset"):
        return A(k, [A(rnd.choice(["int", "str", "bool", "none", "enum", "date"]))])      # hashable elements
    if k == "tuple":
        return A(k, [rand_ann(rnd, depth - 1) for _ in range(rnd.randint(1, 3))])
    if k == "swap":
        return A(k, [rand_ann(rnd, depth - 1), rand_ann(rnd, depth - 1)])
    if k == "map":
        return A(k, [A(rnd.choice(["str", "int"])), rand_ann(rnd, depth - 1)])
    alts = [rand_ann(rnd, depth - 1) for _ in range(rnd.randint(2, 3))]
    return A("union", alts)


def rand_val(rnd, a, depth=4):
    """a value that mostly conforms to the annotation term, with random deviations at every level"""
    if rnd.random() < 0.12 or depth <= 0:
        return rnd.choice(LEAF_VAL) if rnd.random() < 0.7 else V(rnd.choice(["list", "tuple"]), 0, [rnd.choice(LEAF_VAL)])
    k, xs = a["k"], a["xs"]
    leaf = {"none": V("none"), "bool": V("bool", rnd.randint(0, 1)), "int": V("int", rnd.randint(0, 1)),
            "float": V("float", 15), "str": V("str", rnd.randint(1, 2)), "bytes": V("bytes", 1), "missing": V("missing"),
            "enum": V("enumv", 1), "state": V(rnd.choice(["state", "state2"]), 1), "callable": V(rnd.choice(["func", "cls"]), 1),
            "type": V("cls", 1), "proto": V(rnd.choice(["pclass", "pinst", "pinst", "phollow"]), 1)}
    if k in leaf:
        return leaf[k]
    if k in PLAIN_KINDS:
        return V("datetime", 1) if k == "date" and rnd.random() < 0.3 else V(k, 1)
    if k == "any":
        return rnd.choice(LEAF_VAL)
    if k == "lit":
        return dict(rnd.choice(a["vs"]))
    if k in ("seq", "vtuple", "flist"):
        items = [rand_val(rnd, xs[0], depth - 1) for _ in range(rnd.randint(0, 2))]
        return V(rnd.choice(["list", "tuple"]) if k == "seq" else rnd.choice(["tuple", "tuple", "list"]), 0, items)
    if k in ("set", "fset"):
        items = {json.dumps(rand_val(rnd, xs[0], 1), sort_keys=True) for _ in range(rnd.randint(0, 2))}
        return V(rnd.choice(["set", "fset"]), 0, [json.loads(x) for x in sorted(items)])
    if k == "pair":
        return V("tuple", 0, [rand_val(rnd, xs[0], depth - 1) for _ in range(rnd.choice([2, 2, 2, 1, 3]))])
    if k == "swap":
        return V("tuple", 0, [rand_val(rnd, xs[1], depth - 1), rand_val(rnd, xs[0], depth - 1)])
    if k == "tuple":
        n = len(xs) if rnd.random() < 0.85 else rnd.randint(0, 3)
        return V(rnd.choice(["tuple", "tuple", "list"]), 0, [rand_val(rnd, xs[min(i, len(xs) - 1)], depth - 1) for i in range(n)])
    if k == "map":
        keys = rnd.sample([V("str", 1), V("str", 2), V("int", 1)], rnd.randint(0, 2))
        return V("dict", 0, [V("pair", 0, [kk, rand_val(rnd, xs[1], depth - 1)]) for kk in keys])
    if k == "union":
        return rand_val(rnd, rnd.choice(xs), depth - 1)
    if k == "alias":
        return rand_val(rnd, xs[0], depth - 1)
    raise ValueError(k)


def _hashable_ok(v):
    """the Python value of the term can be built (set elements / dict keys hashable and distinct)"""
    def count(t):
        return 1 + sum(count(x) for x in t["xs"])

    try:
        # ... and nothing collapses ({True, 1} is one element in Python): the term has to survive the round trip
        return count(py_to_val(val_to_py(v))) == count(v)
    except Exception:  # noqa: BLE001
        return False


def gen_trace(rnd):
    while True:
        ann = rand_ann(rnd, rnd.randint(1, 4))
        val = rand_val(rnd, ann)
        if _hashable_ok(val):
            break
    d = ValuesDriver()
    d.reset(dict(ann=_tup(ann), val=_tup(val)))
    o = d.apply("Construct", ())
    return [dict(ev="Init", init=dict(ann=ann, val=val)), dict(ev="Construct", args=[], obs=_lst(o))]


def _tup(t):
    return {k: (tuple(_tup(x) for x in v) if isinstance(v, list) else v) for k, v in t.items()}


def _lst(o):
    if isinstance(o, dict):
        return {k: _lst(v) for k, v in o.items()}
    if isinstance(o, (list, tuple)):
        return [_lst(x) for x in o]
    return o


TRACE_KW = dict(variables=["ann", "val", "done", "obs"], constants=dict(Depth=1, Bug='"none"'),
                config_vars=["ann", "val"], actions=dict(Construct=0), init="InitAny",
                invariants=["ExactlyConforming", "NormConforms", "NormIdempotent", "Faithful", "StoredImmutable"])


def run(rep, work, tier, seed):
    depth = 1 if tier == "quick" else 2
    c = dict(Depth=depth, Bug="none")
    rep.extra["constants"] = c
    leg_m(rep, work, SPEC, f"mc_{tier}", cfg_text(dict(Depth=2, Bug="none"), invariants=INVS), expect_actions=["Construct"])
    if tier == "thorough":
        for bug, inv in (("union_last", ["NormConforms", "Faithful", "NormIdempotent", "StoredImmutable"]),
                         ("set_keeps_raw", ["StoredImmutable", "NormIdempotent", "NormConforms"]),
                         ("tuple_len_ignored", ["ExactlyConforming"])):
            try:
                leg_mutant(rep, work, SPEC, f"mutant_{bug}", cfg_text(dict(Depth=2, Bug=bug), invariants=INVS), inv)
            except Exception as e:  # noqa: BLE001
                if "not rejected" in str(e):
                    rep.extra.setdefault("design_mutants_equivalent", []).append(bug)
                else:
                    raise
    leg_r(rep, work, SPEC, f"conf_{tier}", cfg_text(c, invariants=INVS), ValuesDriver, nproc=8)
    # leg T: random (annotation, value) terms up to annotation depth 4, constructed in the real library (all four holder
    # forms) and judged by TLC evaluating Conforms / Contested / Norm of Values.tla on the recorded pair
    rnd = random.Random(seed * 53 + 17)
    traces = gen_traces(rep, lambda: gen_trace(rnd), 600 if tier == "quick" else 8000)
    leg_t_gen(rep, work, SPEC, f"trace_{tier}", traces, **TRACE_KW)
    rep.assumptions += [
        "annotation vocabulary of the enumerated terms: None, bool, int, float, str, bytes, Any, Missing, Enum, nested "
        "State (and a subclass instance), Literal, Sequence, Set, frozenset, Mapping, fixed and variadic tuple, Union / "
        "Optional, a plain type alias; old typing.List-style and bare generics are out of scope",
        "contested points (accepted either way): ==-equal Literal member of another type, list for tuple[...], str/bytes "
        "for Sequence[...]; NaN excluded",
        "every pair is constructed four ways - constructor argument of a plain class, class default, GHolder[annotation], "
        "a subclass of GHolder[annotation] - and the four have to agree",
    ]
    return rep.finish(exhaustive=True,
                      rule="every (annotation term, value term) pair of the bounded sets is one initial state; one Construct "
                           "edge each (two where contested); every edge replayed into a real State subclass")


def replay(rep, record):
    init = record["init"]
    print("  annotation:", init["ann"])
    print("  value     :", init["val"])
    d = ValuesDriver()
    d.reset(init)
    print("  construct (all forms) ->", d.apply("Construct", ()))
