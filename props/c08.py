"""C08 - disposables are entered once, exited once, and their cleanup errors surface."""
import random

from harness.legs import cfg_text, gen_traces, leg_m, leg_mutant, leg_r, leg_t_gen
from props.scopelife_common import ScopeLifeDriver, replay  # noqa: F401

SPEC = "ScopeLife"
MANIFEST = dict(
    text="ScopeLife.tla with 2-3 disposables, each independently ok / failing / suspending in __aenter__ and in "
         "__aexit__ (suspended ones released in every order with success or failure), every body outcome incl. "
         "cancellation. TLC checks EnterOnce, ExitOnce (exited exactly once and exactly those whose __aenter__ "
         "returned), ExitArg (the body's exception details, or the reason of the rollback), EnterFailureNoBody and "
         "SurfaceCleanup (a single cleanup error reaches the caller as that error, several as a group of exactly "
         "them); every edge is replayed into a real scope whose disposable doubles log every __aenter__/__aexit__ "
         "call with its arguments, and the state yielded by a disposable is probed inside the body. Also Again: the same Disposables object goes through a second scope after the first is over, however that ended - every disposable entered and exited exactly once more.",
    technique="TLA+ spec + TLC exhaustive model checking of fault placements and completion orders; edge-complete graph "
              "replay into the implementation through gated disposable doubles",
    design="5/C08")
INVS = ["TypeOK", "Restored", "BodyExcIdentity", "EnterOnce", "ExitOnce", "ExitArg", "EnterFailureNoBody",
        "SurfaceCleanup", "CancelNotLost", "CancelAbortsMembers", "NoWaitAfterFailure", "DisposableStateVisible"]
ALL = ["ok", "fail", "susp"]


def run(rep, work, tier, seed):
    if tier == "quick":
        mc = dict(ND=3, NC=0, Behaviours=ALL, Bug="none")
        confs = [("d2", dict(ND=2, NC=0, Behaviours=ALL, Bug="none")), ("d3", dict(ND=3, NC=0, Behaviours=ALL, Bug="none"))]
    else:
        mc = dict(ND=3, NC=1, Behaviours=ALL, Bug="none")
        confs = [("d3", dict(ND=3, NC=0, Behaviours=ALL, Bug="none"))]
    rep.extra["constants"] = dict(model=mc, conformance=[c for _, c in confs])
    leg_m(rep, work, SPEC, f"mc_{tier}", cfg_text(mc, invariants=INVS),
          expect_actions=["Enter", "Cancel", "Leave", "ReleaseEnter", "ReleaseExit"], timeout=3000)
    if tier == "thorough":
        small = dict(ND=2, NC=0, Behaviours=ALL)
        leg_mutant(rep, work, SPEC, "mutant_single_cleanup_error_vanishes",
                   cfg_text(dict(small, Bug="single_cleanup_error_vanishes"), invariants=INVS), ["SurfaceCleanup"])
        leg_mutant(rep, work, SPEC, "mutant_completion_order_state",
                   cfg_text(dict(small, Bug="completion_order_state"), invariants=INVS), ["DisposableStateVisible"])
        leg_mutant(rep, work, SPEC, "mutant_no_rollback", cfg_text(dict(small, Bug="no_rollback"), invariants=INVS),
                   ["ExitOnce"])
    for name, conf in confs:
        leg_r(rep, work, SPEC, f"conf_{name}_{tier}", cfg_text(conf, invariants=INVS), ScopeLifeDriver, world=True)
    # leg T: 4 disposables / 3 spawned tasks, random environment moves among those the real scope offers
    from props.scopelife_common import TRACE_KW as LIFE_KW, gen_trace as life_trace
    rnd = random.Random(seed * 41 + 7)
    traces = gen_traces(rep, lambda: life_trace(rnd), 200 if tier == "quick" else 3000)
    leg_t_gen(rep, work, "ScopeLife", f"trace_{tier}", traces, **LIFE_KW)
    rep.assumptions += [
        "disposable doubles: disposable i yields the state B = i (the body must see the one declared last, whatever the "
        "order in which they finished entering), the middle one of three yields nothing (None); return shapes alternate "
        "between a single State and a list",
        "errors raised by the exits run during the rollback of a failed enter are ignored by the library (the enter "
        "error is what surfaces) - modelled so",
    ]
    return rep.finish(exhaustive=True,
                      rule="every assignment of ok/fail/suspend to __aenter__ and __aexit__ of up to 3 disposables x every "
                           "release order and result x body outcome (return, Exception, BaseException, cancelled) x "
                           "cancellation while entering / exiting; every edge replayed")
