"""C18 - asynchronous, wrap_async, traced are transparent and carry the caller context."""
import threading
from concurrent.futures import ThreadPoolExecutor

from haiway import MISSING, asynchronous, cache, ctx, retry, throttle, timeout, traced, wrap_async

from harness import interp
from harness.interp import Base, Err, World
from harness.legs import cfg_text, leg_m, leg_mutant, leg_r
from harness.vloop import Falsy, elder_loop

SPEC = "Wrappers"
OPT_PASS = False   # `traced` is documented to do nothing without __debug__: the optimised pass has nothing to compare here
MANIFEST = dict(
    text="Wrappers.tla models one call through asynchronous (function and method form, default / explicit executor), "
         "wrap_async (sync and async argument) and traced (sync and async) from a caller nested 0-2 scopes deep, for "
         "every call signature form and outcome (value / Exception / BaseException); the executor thread is released by "
         "the environment and a Heartbeat action must stay enabled while it runs. TLC checks Transparent, OffLoop, "
         "LoopServes, SeesCallerState, NoLeakBack, TracedRecords and KeepsMetadata over the whole scenario table; every "
         "edge is replayed: a real executor thread blocks on an event the driver sets while a second task on the same "
         "loop is stepped, the function double reports the state it sees / its thread / its arguments and may change "
         "its own context, traced's ArgumentsTrace / ResultTrace are read from an enclosing scope's completion callback, "
         "and __name__ / __doc__ / __wrapped__ are read for each of the seven helper decorators.",
    technique="TLA+ spec + TLC exhaustive enumeration of the scenario table with invariants; edge-complete graph replay "
              "into the implementation (real executor thread, gated release)",
    design="5/C18")
INVS = ["TypeOK", "Transparent", "OffLoop", "LoopServes", "SeesCallerState", "NoLeakBack", "TracedRecords", "KeepsMetadata"]
ALL_KINDS = ["asynchronous_fn", "asynchronous_method", "wrap_async_sync", "wrap_async_async", "traced_sync", "traced_async"]
ALL_SIGS = ["pos", "kw", "defaults", "varargs"]
# keyword arguments may carry ANY name - also the names the wrappers use for their own parameters and attributes
_KW = {"x": 4, "instance": 5, "function": 6, "executor": 7, "loop": 8, "args": 9, "kwargs": 10, "self_": 11, "cls": 12,
       "owner": 13, "name": 14}
CALLS = {"pos": ((1, 2), {}), "kw": ((), {"a": 1, "b": 2}), "defaults": ((1,), {}), "varargs": ((1, 2, 3), dict(_KW))}
EXPECT = {"pos": (1, 2, (), {}), "kw": (1, 2, (), {}), "defaults": (1, 2, (), {}), "varargs": (1, 2, (3,), dict(_KW))}


def real_wait(seconds):
    threading.Event().wait(seconds)


class _SlottedMeta(type):
    pass


def _make_slotted():
    # (a class docstring would conflict with a __doc__ slot)
    ns = {"__slots__": ("__name__", "__qualname__", "__doc__"), "__call__": lambda self, x: x}
    cls = _SlottedMeta("Slotted", (), ns)
    o = cls()
    o.__name__ = o.__qualname__ = "slotted"
    o.__doc__ = "the docstring"
    return o


# (not TimeoutError: asyncio itself replaces a TimeoutError that comes out of an executor future by a copy - DESIGN 6.4)
ERR_CLASSES = (Err, RuntimeError, NotImplementedError, LookupError, KeyError, OSError)


def _Slotted():
    """a callable object with no instance dictionary"""
    return _make_slotted()


class WrappersDriver:
    def reset(self, init):
        self.s = {k: init[k] for k in ("kind", "sig", "outcome", "depth", "exec", "sets")}
        self.w = w = World(types=("A",))
        self.loop_thread = threading.get_ident()
        self.release = threading.Event()
        self.started = threading.Event()
        self.inside = (0, "none", "none")
        self.beats = 0
        self.result = None
        self.pool = None
        self.traced_obs = ("none", "none", "none")
        self.warm = None
        self.first_use = None
        self.wrong_receiver = False
        # "exceptions of arbitrary type": the class of the function's exception rotates over the scenarios - the library's
        # own machinery (executors, futures, task groups) raises some of these itself and must not mistake the function's
        errcls = ERR_CLASSES[(self.s["depth"] + 3 * bool(self.s["sets"]) + len(self.s["sig"]) + len(self.s["kind"])) % len(ERR_CLASSES)]
        self.VAL, self.ERR, self.BASE = Falsy("value"), errcls("fn failed"), Base("fn base")
        self.runs = 0
        self.AW = self.w.loop.create_future()      # an awaitable object returned as a plain value
        self.AW.set_result("what awaiting the returned object would give")
        self.metrics = []
        w.start("1")
        for k in range(1, self.s["depth"] + 1):
            w.do("1", "sscope", k, [("A", k)], None)
        w.start("hb")

    # ---- the wrapped function (double)
    def _body(self, a, b, args, kwargs, threaded):
        w = self.w
        on_loop = threading.get_ident() == self.loop_thread
        ok = (a, b, tuple(args), dict(kwargs)) == EXPECT[self.s["sig"]]
        label = w.metrics_label() if self.s["kind"].startswith("traced") else None
        self.runs += 1
        self.inside = (w.lookup("A"), "on_loop" if on_loop else "off_loop",
                       self.first_use or (f"the function ran {self.runs} times for one call" if self.runs > 1
                                          else "wrong receiver" if self.wrong_receiver else "args_ok" if ok
                                          else f"args {a, b, args, kwargs}"))
        self.label_seen = label
        if self.s["sets"]:
            ctx.updated(interp.A(v=9)).__enter__()  # changes only the function's own (copied) context
        self.started.set()
        if threaded and not on_loop:
            self.release.wait(120)
        o = self.s["outcome"]
        if o == "val":
            return self.VAL
        if o == "aw":
            return self.AW
        raise self.ERR if o == "exc" else self.BASE

    def _make(self):
        drv = self
        kind = self.s["kind"]
        threaded = kind.startswith("asynchronous")

        def fn(a, b=2, *args, **kwargs):
            """documented"""
            if drv.warm is not None:        # the first use of the wrapper (on another loop)
                drv.warm.append("fn")
                return "warm"
            return drv._body(a, b, args, kwargs, threaded)

        async def afn(a, b=2, *args, **kwargs):
            """documented"""
            return drv._body(a, b, args, kwargs, False)

        # the wrapped functions carry attributes of their own, named like the wrappers' internals (as the wrapper objects
        # of the other helper decorators do): a wrapper has to keep calling the function it was given
        def decoy(*args, **kwargs):
            return "decoy called instead of the wrapped function"

        async def adecoy(*args, **kwargs):
            return "decoy called instead of the wrapped function"

        fn._function, afn._function = decoy, adecoy

        if kind == "asynchronous_fn":
            if self.s["exec"] == "explicit":
                self.pool = ThreadPoolExecutor(1)
                return asynchronous(executor=self.pool)(fn), False
            return asynchronous(fn), False
        if kind == "asynchronous_method":
            deco = asynchronous
            if self.s["exec"] == "explicit":
                self.pool = ThreadPoolExecutor(1)
                deco = asynchronous(executor=self.pool)

            class Holder:
                """receivers that are ==-equal and hash-equal but distinct objects (value objects), and falsy"""

                def __eq__(self, other):
                    return isinstance(other, Holder)

                def __hash__(self):
                    return 11

                def __bool__(self):         # ... and falsy (an empty collection-like object is an ordinary receiver)
                    return False

                def __len__(self):
                    return 0

                @deco
                def m(self, a, b=2, *args, **kwargs):
                    """documented"""
                    if drv.warm is not None:        # the method has been used through ANOTHER, equal instance before
                        drv.warm.append(self)
                        return "warm"
                    if self is not drv.holder:
                        drv.wrong_receiver = True
                    return drv._body(a, b, args, kwargs, True)

            self.first_holder = Holder()
            self.holder = Holder()
            self.warm_method = self.first_holder.m
            return self.holder.m, False
        if kind == "wrap_async_sync":
            return wrap_async(fn), False
        if kind == "wrap_async_async":
            return wrap_async(afn), False
        if kind == "traced_sync":
            return traced(fn), True
        return traced(afn), False

    def _classify(self, got):
        k, v = got
        if k == "val":
            return "val" if v is self.VAL else "aw" if v is self.AW else f"foreign value {v!r}"
        if v is self.ERR:
            return "exc"
        if v is self.BASE:
            return "base"
        return f"foreign exception {v!r}"[:200]

    def _obs(self, pc, meta=("none", "none", "none")):
        w = self.w
        p = w.at.get("1")
        cons = p["A"] if p else (self.cons_before if pc == "running" else "busy")
        return dict(pc=pc, res="none" if self.result is None else self._classify(self.result), inside=self.inside,
                    beats=self.beats, cons=cons, traced=self.traced_obs, meta=meta)

    def apply(self, name, args):
        w = self.w
        if name == "Call":
            wrapped, sync_call = self._make()
            cargs, ckw = CALLS[self.s["sig"]]
            is_traced = self.s["kind"].startswith("traced")
            self.cons_before = w.at["1"]["A"]
            drv = self

            async def run():
                try:
                    if is_traced:
                        with ctx.scope("observer", completion=lambda m: drv.metrics.append(m)):
                            r = wrapped(*cargs, **ckw) if sync_call else await wrapped(*cargs, **ckw)
                    else:
                        r = wrapped(*cargs, **ckw)
                        if not sync_call:
                            r = await r
                    drv.result = ("val", r)
                except BaseException as e:  # noqa: BLE001
                    drv.result = ("exc", e)

            if self.s["kind"].startswith("asynchronous"):
                # first use of the wrapper: on ANOTHER event loop (one that stays open), and for a method through the
                # other, equal receiver; it runs on the executor and returns at once
                method = self.s["kind"] == "asynchronous_method"
                self.warm = []
                target = self.warm_method if method else wrapped

                async def first():
                    r = await target(*cargs, **ckw)
                    drv.warm.append(r)

                elder = elder_loop()
                t = elder.create_task(first())
                for _ in range(60000):
                    elder.quiesce()
                    if t.done():
                        break
                    real_wait(0.001)
                if self.warm != [self.first_holder if method else "fn", "warm"]:
                    self.first_use = f"first use of the wrapper failed: {self.warm!r} {t!r}"[:200]
                self.warm = None
            if is_traced and self.s["depth"] == 1:
                # the call is made by a task that OUTLIVED the scope it was started in (a plain task; that scope has been left
                # and has completed): the helper behaves the same there
                w.do("1", "sscope", 900, [], None)
                w.do("1", "plainspawn", "late")
                w.do("1", "leave", "return")
                w.do("late", "call", run)
            else:
                w.do("1", "call", run)
            if self.s["kind"].startswith("asynchronous"):
                # wait until the function runs on its thread - or until the call is over without it ever having run (a call
                # that fails before the function is reached must not stall the check)
                for _ in range(60000):
                    if self.started.is_set() or w.status("1") != "busy":
                        break
                    w.loop.quiesce()
                    real_wait(0.001)
                w.loop.quiesce()
                if w.status("1") == "busy":
                    return self._obs("running")
            self._finish_traced()
            return self._obs("done")
        if name == "Heartbeat":
            if w.status("hb") == "gate":
                w.do("hb", "nop")
                if w.status("hb") == "gate":
                    self.beats += 1
            return self._obs("running")
        if name == "Finish":
            self.release.set()
            for _ in range(60000):
                w.loop.quiesce()
                if w.status("1") != "busy":
                    break
                real_wait(0.001)
            return self._obs("done" if w.status("1") == "gate" else "stuck:" + w.status("1"))
        if name == "Decorate":
            return self._obs("idle", self._meta(args[0]))
        raise ValueError(name)

    def _finish_traced(self):
        if not self.s["kind"].startswith("traced"):
            return
        self.w.loop.quiesce()
        label = "label_ok" if getattr(self, "label_seen", None) == "fn" or getattr(self, "label_seen", None) == "afn" \
            else f"label {getattr(self, 'label_seen', None)!r}"
        if not self.metrics:
            self.traced_obs = (label, "no-completion", "none")
            return
        from haiway import ArgumentsTrace, ResultTrace
        found = {type(m).__name__: m for m in self.metrics[0].metrics(merge=lambda cur, rec: rec)}
        at, rt = found.get("ArgumentsTrace"), found.get("ResultTrace")
        cargs, ckw = CALLS[self.s["sig"]]
        if isinstance(at, ArgumentsTrace) and (tuple(at.args) if at.args is not MISSING else ()) == tuple(cargs) and \
                (dict(at.kwargs) if at.kwargs is not MISSING else {}) == ckw:
            a = "args_recorded"
        else:
            a = f"args {at!r}"[:120]
        if isinstance(rt, ResultTrace):
            r = self._classify(("val", rt.result)) if rt.result is self.VAL or rt.result is self.AW \
                else self._classify(("exc", rt.result))
        else:
            r = "none"
        self.traced_obs = (label, a, r)

    def _meta(self, d):
        def sync_f(x):
            """the docstring"""
            return x

        async def async_f(x):
            """the docstring"""
            return x

        variants = {
            "asynchronous": [(asynchronous, sync_f), (asynchronous(executor=ThreadPoolExecutor(1)), sync_f)],
            "wrap_async": [(wrap_async, sync_f), (wrap_async, async_f)],
            "traced": [(traced, sync_f), (traced, async_f)],
            "cache": [(cache, sync_f), (cache(limit=2), async_f)],
            "retry": [(retry, sync_f), (retry(limit=2), async_f)],
            "throttle": [(throttle, async_f), (throttle(limit=2, period=1.0), async_f)],
            "timeout": [(timeout(1.0), async_f)],
        }[d]
        import functools

        def stacked(f):
            @functools.wraps(f)
            def inner(*a, **k):
                return f(*a, **k)
            return inner

        async def _araw(x):
            """the docstring"""
            return x

        @functools.wraps(_araw)
        async def async_stacked(x):
            return await _araw(x)

        # the decorated object may itself be a wrapper that already carries __wrapped__ (stacked helpers)
        extra = []
        for deco, f in variants:
            import asyncio as _a
            extra.append((deco, async_stacked if _a.iscoroutinefunction(f) else stacked(f)))
        variants = variants + extra
        for v in extra:
            v[1].__name__ = v[1].__wrapped__.__name__
        # ... or a callable WITHOUT an instance dictionary: a builtin (the textbook use of `asynchronous` is a blocking C
        # function), an instance of a class with __slots__
        if d in ("asynchronous", "wrap_async", "traced", "cache", "retry"):
            variants = variants + [(variants[0][0], len), (variants[-1][0] if d != "cache" else cache, sorted),
                                   (variants[0][0], _Slotted())]
        name = doc = wrapped = True
        for deco, f in variants:
            g = deco(f)
            name &= getattr(g, "__name__", None) == f.__name__
            doc &= getattr(g, "__doc__", None) == f.__doc__ and f.__doc__ is not None
            wrapped &= (g is f) or getattr(g, "__wrapped__", None) is f
        return ("name_ok" if name else "name_lost", "doc_ok" if doc else "doc_lost", "wrapped_ok" if wrapped else "missing")

    def close(self):
        self.release.set()
        try:
            for _ in range(200):
                self.w.loop.quiesce()
                if self.w.status("1") != "busy":
                    break
                real_wait(0.001)
            self.w.close()
        finally:
            if self.pool is not None:
                self.pool.shutdown(wait=False)


def run(rep, work, tier, seed):
    c = dict(Kinds=ALL_KINDS, Sigs=ALL_SIGS, MaxBeats=2, Bug="none")
    rep.extra["constants"] = c
    leg_m(rep, work, SPEC, f"mc_{tier}", cfg_text(c, invariants=INVS),
          expect_actions=["Call", "Heartbeat", "Finish", "Decorate"])
    if tier == "thorough":
        for bug, inv in (("method_loses_context", ["SeesCallerState"]), ("runs_on_loop", ["OffLoop"]),
                         ("swallow_exception", ["Transparent"]), ("leaks_back", ["NoLeakBack"]),
                         ("result_not_recorded", ["TracedRecords"]), ("no_wrapped", ["KeepsMetadata"])):
            leg_mutant(rep, work, SPEC, f"mutant_{bug}", cfg_text(dict(c, Bug=bug), invariants=INVS), inv)
    conf = c if tier == "thorough" else dict(c, Sigs=["kw", "varargs"])
    leg_r(rep, work, SPEC, f"conf_{tier}", cfg_text(conf, invariants=INVS), WrappersDriver, nproc=4)
    rep.assumptions += [
        "one controlled executor thread per call (default loop executor or an explicit ThreadPoolExecutor); races inside "
        "user functions on real threads are out of scope",
        "traced is exercised in debug mode (__debug__ true), where it records arguments and outcome",
        "the metadata clause is a table lookup: the specification merely states it and the harness observes it",
    ]
    return rep.finish(exhaustive=True,
                      rule="the full scenario table (wrapper kind x signature form x outcome x caller nesting depth x executor "
                           "x function changes its context) with call / heartbeat / release steps, plus the metadata of the "
                           "seven helper decorators; every edge replayed")


def replay(rep, record):
    from harness.graph import parse_label
    d = WrappersDriver()
    d.reset(record["init"])
    print("  scenario:", d.s)
    try:
        for lab in record["path"]:
            name, args = parse_label(lab)
            print(f"  {lab} -> {d.apply(name, args)}")
    finally:
        d.close()
