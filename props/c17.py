"""C17 - AsyncQueue delivers every element exactly once, in order, then the finish reason."""
import asyncio
import random

from harness.legs import cfg_text, leg_m, leg_mutant, leg_r, leg_t
from harness.vloop import Falsy, VLoop

SPEC = "Queue"
MANIFEST = dict(
    text="Queue.tla models AsyncQueue + its consumer at the grain of one action per public call / loop wake-up; "
         "TLC checks NoLoss, DrainedAll, AfterFinish, ReasonStable, GotAppendOnly and liveness EventuallyWoken over "
         "all operation sequences within the bounds; EVERY edge of that state graph is replayed into the real "
         "AsyncQueue (observation must equal the spec successor's obs, hidden buffer exposed by a Drain edge from "
         "every state) and random length-40 histories recorded from the real queue are validated by QueueTrace.tla. "
         "Leg H validates executions the harness did not script, recorded through the guarded add-only hooks in "
         "haiway/utils/queue.py: the queues used by the repository's own test suite, and random producer / consumer / "
         "canceller / finisher programs running on a real asyncio event loop (no virtual loop, no gates).",
    technique="TLA+ spec + TLC exhaustive model checking; edge-complete graph replay into the implementation; "
              "batch trace validation (QueueTrace.tla) of driver-recorded and of hook-recorded executions",
    design="5/C17")
INVS = ["TypeOK", "NoLoss", "DrainedAll", "AfterFinish", "WaiterSane"]
PROPS = ["ReasonStable", "GotAppendOnly"]
ACTIONS = ["Enqueue", "Finish", "StartReceive", "CancelRequest", "Wake", "Drain"]


class FakeErr(Exception):
    def __bool__(self):
        return False    # exceptions are user objects too: nothing may decide by their truthiness

    def __eq__(self, other):
        return isinstance(other, BaseException)     # exceptions that compare equal to each other (identity is what counts)

    def __hash__(self):
        return 19


class ElemErr(Exception):
    """an ELEMENT that happens to be an exception instance (a queue of results-or-errors): it is delivered like any other
    element - returned, not raised"""

    def __init__(self, tag):
        super().__init__(tag)
        self.tag = tag

    def __bool__(self):
        return False

    def __eq__(self, other):
        return isinstance(other, (ElemErr, Falsy))

    def __hash__(self):
        return 17


def elem(k):
    """element number k: a falsy object, every third one an exception instance"""
    return ElemErr(k) if k % 3 == 0 else Falsy(k)


class QueueDriver:
    """real AsyncQueue + one consumer task, driven action by action through the public API"""

    def __init__(self):
        self.loop = None

    def reset(self, init):
        from haiway.utils.queue import AsyncQueue
        self.loop = VLoop()
        n = len(init["buf"]) if init else 0
        # the elements are FALSY objects (an element is an arbitrary user value - None, 0, an empty container ...):
        # element number k travels as Falsy(k) and is reported by its number
        self.q = AsyncQueue(*[elem(i) for i in range(1, n + 1)], loop=self.loop)
        self.n = n
        self.task = None
        self.creq = False
        self.err = FakeErr("boom")

    def _o(self, *a):
        return dict(a=tuple(a), fin=bool(self.q.is_finished))

    def apply(self, name, args):
        if name == "Enqueue":
            k = args[0]
            es = [elem(self.n + i + 1) for i in range(k)]
            try:
                self.q.enqueue(*es)
            except RuntimeError:
                return self._o("enqueue", k, "RuntimeError")
            self.n += k
            return self._o("enqueue", k, "ok")
        if name == "Finish":
            r = args[0]
            if r == "stop":
                self.q.finish()
            elif r == "err":
                self.q.finish(self.err)
            else:
                self.q.cancel()
            return self._o("finish", r)
        if name == "StartReceive":
            self.task = self.loop.create_task(self.q.__anext__())
            self.loop.step()  # only the consumer's own first step
            return self._observe("recv")
        if name == "CancelRequest":
            self.task.cancel()
            self.creq = True
            return self._o("cancelreq")
        if name == "Wake":
            self.loop.quiesce()
            return self._observe("wake")
        if name == "Drain":
            return self._drain()
        raise ValueError(name)

    def _outcome(self, t):
        if t.cancelled():
            # queue.cancel() surfaces as a cancelled receive too; tell it from our own request
            return ("cancelled", 0) if self.creq else ("exc", "cancel")
        e = t.exception()
        if e is None:
            r = t.result()
            return ("val", r.tag if isinstance(r, (Falsy, ElemErr)) else f"foreign element {r!r}")
        if isinstance(e, StopAsyncIteration):
            return ("exc", "stop")
        if e is self.err:
            return ("exc", "err")
        if isinstance(e, asyncio.CancelledError):
            return ("exc", "cancel")
        return ("exc", repr(e))

    def _observe(self, what):
        t = self.task
        if t is None or not t.done():
            return self._o(what, "suspended")
        self.task = None
        out = self._outcome(t)
        self.creq = False
        return self._o(what, *out)

    def _drain(self):
        if self.task is not None and not self.task.done():
            self.task.cancel()
            self.loop.quiesce()
        self.task = None
        self.creq = False
        self.q.finish()
        out = []
        for _ in range(100000):
            t = self.loop.create_task(self.q.__anext__())
            self.loop.quiesce()
            if not t.done():
                t.cancel()
                self.loop.quiesce()
                return self._o("drain", tuple(out), "HANG")
            k, v = self._outcome(t)
            if k == "val":
                out.append(v)
                continue
            return self._o("drain", tuple(out), v if k == "exc" else "cancel")
        return self._o("drain", tuple(out), "ENDLESS")

    def close(self):
        if self.loop is not None:
            try:
                self.q.finish()
            except Exception:
                pass
            self.loop.shutdown()


def consts(tier, **kw):
    c = dict(MaxEnq=4, MaxOps=6, MaxInit=1, Bug="none") if tier == "quick" else \
        dict(MaxEnq=5, MaxOps=8, MaxInit=2, Bug="none")
    c.update(kw)
    return c


def gen_trace(rnd, length, bulk=False):
    """bulk: a producer far ahead of its consumer - thousands of elements initially or in one batch (nothing in the
    property bounds the backlog)"""
    d = QueueDriver()
    n0 = rnd.choice([0, 1100, 2300]) if bulk else rnd.choice([0, 0, 1, 3])
    d.reset(dict(buf=tuple(range(n0))))
    tr = [dict(ev="Init", n=n0)]
    try:
        for _ in range(length):
            ch = [("Enqueue", (1,)), ("Enqueue", (2,)), ("Enqueue", (3,))]
            if bulk and rnd.random() < 0.3:
                ch += [("Enqueue", (700,)), ("Enqueue", (1500,))] * 3
            if rnd.random() < 0.12:
                ch += [("Finish", ("stop",)), ("Finish", ("err",)), ("Finish", ("cancel",))]
            if d.task is None:
                ch += [("StartReceive", ())] * 4
            else:
                ch += [("Wake", ())] * 2 if d.loop.live_ready() else []
                if not d.creq:
                    ch += [("CancelRequest", ())]
            name, args = rnd.choice(ch)
            o = d.apply(name, args)
            ev = dict(ev=name, res=list(o["a"]), fin=o["fin"])
            if name == "Enqueue":
                ev["n"] = args[0]
            if name == "Finish":
                ev["r"] = args[0]
            tr.append(ev)
        if bulk:
            # a long run of receives that find their element buffered: each is a task given exactly one step, which is all
            # it needs - hundreds in a row, none of them may suspend
            if d.task is not None:
                o = d.apply("Wake", ())
                tr.append(dict(ev="Wake", res=list(o["a"]), fin=o["fin"]))
            for _ in range(700):
                if d.task is not None:
                    break
                o = d.apply("StartReceive", ())
                tr.append(dict(ev="StartReceive", res=list(o["a"]), fin=o["fin"]))
        o = d.apply("Drain", ())
        tr.append(dict(ev="Drain", res=[o["a"][0], list(o["a"][1]), o["a"][2]], fin=o["fin"]))
    finally:
        d.close()
    return tr


class _WorkErr(Exception):
    def __bool__(self):
        return False    # exceptions are user objects too: nothing may decide by their truthiness


def real_loop_traces(rnd, runs):
    """programs on a REAL asyncio event loop (asyncio.run, no virtual loop, no gates): several producers, one consumer
    that is cancelled and restarted now and then, a finisher; observed through the library's guarded hooks"""
    from haiway import AsyncQueue
    from harness import qhook
    tracer = qhook.install()
    if tracer is None:
        return None

    async def program():
        q = AsyncQueue(*[object() for _ in range(rnd.choice([0, 0, 1, 3]))])
        state = dict(stop=False)

        async def receive_some():
            while True:
                try:
                    await q.__anext__()
                except (StopAsyncIteration, _WorkErr):
                    state["stop"] = True
                    return
                except asyncio.CancelledError:
                    if q.is_finished:                # the queue's own finish reason (queue.cancel()) or the end anyway
                        state["stop"] = True
                        return
                    raise                            # this receive was cancelled: consumption resumes later
                if rnd.random() < 0.3:
                    await asyncio.sleep(0)

        async def consumer():
            while not state["stop"]:
                t = asyncio.ensure_future(receive_some())
                for _ in range(rnd.randint(1, 6)):
                    await asyncio.sleep(0)
                if not t.done() and rnd.random() < 0.6:
                    t.cancel()                       # consumption is interrupted ...
                try:
                    await t                          # ... and resumes with a new receive afterwards
                except asyncio.CancelledError:
                    pass

        async def producer():
            for _ in range(rnd.randint(1, 6)):
                for _ in range(rnd.randint(0, 3)):
                    await asyncio.sleep(0)
                try:
                    if rnd.random() < 0.3:
                        q.enqueue(object(), object())
                    else:
                        q.enqueue(object())
                except RuntimeError:
                    return

        async def finisher(prods):
            if rnd.random() < 0.25:
                for _ in range(rnd.randint(0, 8)):
                    await asyncio.sleep(0)               # finish while the producers are still at it
            else:
                await asyncio.gather(*prods)
            how = rnd.choice(["stop", "stop", "err", "cancel"])
            if how == "stop":
                q.finish()
            elif how == "err":
                q.finish(_WorkErr("done"))
            else:
                q.cancel()

        prods = [asyncio.ensure_future(producer()) for _ in range(rnd.randint(1, 3))]
        cons = asyncio.ensure_future(consumer())
        await finisher(prods)
        await asyncio.gather(*prods, return_exceptions=True)
        try:
            await asyncio.wait_for(cons, 5)
        except (asyncio.CancelledError, asyncio.TimeoutError):
            pass
        if not q.is_finished:
            q.finish()

    try:
        for _ in range(runs):
            asyncio.run(program())
        return tracer.traces()
    finally:
        qhook.uninstall()


def repo_test_traces(work):
    """the repository's own test suite, run with the hooks on and the observer installed as a pytest plugin"""
    import json
    import os
    import subprocess
    import sys
    import haiway
    src = os.path.dirname(os.path.dirname(os.path.abspath(haiway.__file__)))
    tests = os.path.join(os.path.dirname(src), "tests")
    if not os.path.isdir(tests):
        return None
    out = work.path("repo_test_queue_traces.json")
    here = os.path.dirname(os.path.dirname(os.path.abspath(__file__)))
    env = dict(os.environ, HAIWAY_VERIF="1", QHOOK_OUT=out, PYTHONPATH=os.pathsep.join([here, src]))
    r = subprocess.run([sys.executable, "-m", "pytest", "-q", "-p", "no:cacheprovider", "-p", "harness.qhook", tests],
                       cwd=os.path.dirname(src), env=env, capture_output=True, text=True, timeout=600)
    if not os.path.exists(out):
        return None
    return json.load(open(out)), r.stdout.strip().splitlines()[-1] if r.stdout.strip() else ""


def shape_ok(ev):
    r = ev.get("res")
    if ev["ev"] == "Init":
        return True
    if not isinstance(r, list) or not r or not isinstance(ev.get("fin"), bool):
        return False
    k = ev["ev"]
    if k == "Enqueue":
        return len(r) == 3 and r[0] == "enqueue" and isinstance(r[1], int) and r[2] in ("ok", "RuntimeError")
    if k == "Finish":
        return len(r) == 2 and r[0] == "finish" and isinstance(r[1], str)
    if k == "CancelRequest":
        return r == ["cancelreq"]
    if k in ("StartReceive", "Wake"):
        if len(r) == 2:
            return r[1] == "suspended"
        return len(r) == 3 and ((r[1] == "val" and isinstance(r[2], int) and not isinstance(r[2], bool)) or
                                (r[1] == "exc" and r[2] in ("stop", "err", "cancel")) or
                                (r[1] == "cancelled" and r[2] == 0))
    if k == "Drain":
        return len(r) == 3 and isinstance(r[1], list) and all(isinstance(x, int) for x in r[1]) and \
            r[2] in ("stop", "err", "cancel")
    return False


def run(rep, work, tier, seed):
    c = consts(tier)
    rep.extra["constants"] = c
    # leg M: the design satisfies C17 in every reachable state (+ liveness under fair Wake)
    leg_m(rep, work, SPEC, f"mc_{tier}", cfg_text(c, spec="Spec", invariants=INVS,
                                                  properties=PROPS + ["EventuallyWoken"]),
          expect_actions=ACTIONS)
    if tier == "thorough":
        for bug, inv in (("lost_on_cancel", ["NoLoss", "DrainedAll"]), ("dup_handoff", ["NoLoss", "DrainedAll"]),
                         ("finish_clears", ["NoLoss", "DrainedAll"])):
            leg_mutant(rep, work, SPEC, f"mutant_{bug}", cfg_text(consts("quick", Bug=bug), invariants=INVS), inv)
    # leg R: every edge of the same graph replayed into the real queue
    leg_r(rep, work, SPEC, f"conf_{tier}", cfg_text(c, invariants=INVS), QueueDriver)
    # leg T: long random histories recorded from the real queue, validated by QueueTrace
    rnd = random.Random(seed)
    ntr, length = (400, 40) if tier == "quick" else (6000, 40)
    traces, badshape = [], []
    for i in range(ntr + 4):
        t = gen_trace(rnd, length, bulk=i >= ntr)      # the last four: backlogs of thousands of elements
        (traces if all(shape_ok(e) for e in t) else badshape).append(t)
    for t in badshape[:3]:
        bad = next(e for e in t if not shape_ok(e))
        rep.violation(dict(leg="T", why="observation outside the vocabulary of the specification", action=bad["ev"],
                           observed=bad, trace=t), tag="T")
    leg_t(rep, work, "QueueTrace", f"trace_{tier}",
          cfg_text(None, spec="TraceSpec", invariants=["NoLoss", "DrainedAll", "AfterFinish"],
                   constraints=["Track"], postcondition="Report"), traces)
    # leg H: executions this harness did not script, observed through the guarded hooks in haiway/utils/queue.py
    # (MANIFEST.hooks): the repository's own tests, and random producer / consumer programs on a REAL asyncio loop
    hooked = []
    rt = repo_test_traces(work)
    if rt is not None:
        hooked += rt[0]
        rep.extra["hook_traces_repo_tests"] = dict(traces=len(rt[0]), events=sum(len(t) for t in rt[0]), pytest=rt[1])
    rl = real_loop_traces(random.Random(seed * 13 + 5), 60 if tier == "quick" else 1500)
    if rl is not None:
        hooked += rl
        rep.extra["hook_traces_real_loop"] = dict(traces=len(rl), events=sum(len(t) for t in rl))
    if hooked:
        for t in hooked:
            if not all(shape_ok(e) for e in t):
                bad = next(e for e in t if not shape_ok(e))
                rep.violation(dict(leg="H", why="hook observation outside the vocabulary of the specification",
                                   action=bad["ev"], observed=bad, trace=t), tag="T")
        leg_t(rep, work, "QueueTrace", f"hooks_{tier}",
              cfg_text(None, spec="TraceSpec", invariants=["NoLoss", "DrainedAll", "AfterFinish"],
                       constraints=["Track"], postcondition="Report"), hooked)
    else:
        rep.log("leg H skipped: the verification hooks are not present / enabled in this haiway tree")
    rep.assumptions += [
        "single consumer (the class documents that concurrent consumers are unsupported)",
        "CPython 3.12 asyncio Task/Future cancellation semantics; deterministic virtual loop (harness/vloop.py)",
        "elements are distinct increasing integers, so loss, duplication and reordering are all visible",
    ]
    return rep.finish(exhaustive=True,
                      rule="TLC enumerates all operation sequences over {enqueue 1/2, finish(stop|err|cancel), start "
                           "receive, cancel request, loop runs, drain} within MaxOps/MaxEnq; every edge of that graph is "
                           "replayed into the real AsyncQueue; random length-40 histories are trace-validated")


def replay(rep, record):
    """re-execute a recorded violation (leg R path or leg T trace) against the real queue"""
    d = QueueDriver()
    out = []
    try:
        if record.get("leg") == "R":
            from harness.graph import parse_label
            d.reset(record.get("init"))
            for lab in record["path"]:
                name, args = parse_label(lab)
                out.append((lab, d.apply(name, args)))
        else:
            tr = record["trace"]
            d.reset(dict(buf=tuple(range(tr[0]["n"]))))
            for ev in tr[1:]:
                args = (ev["n"],) if ev["ev"] == "Enqueue" else (ev["r"],) if ev["ev"] == "Finish" else ()
                out.append((ev["ev"], d.apply(ev["ev"], args)))
    finally:
        d.close()
    for lab, o in out:
        print(f"  {lab} -> {o}")
    return out
