"""C15 - throttle never starts more than `limit` calls in any `period` window."""
import asyncio
from datetime import timedelta

import random

from haiway import ctx

from harness.decoys import decoyed
from harness.legs import cfg_text, gen_traces, leg_m, leg_mutant, leg_r, leg_t_gen
from harness.vloop import Falsy, VClock, VLoop

SPEC = "Throttle"
MANIFEST = dict(
    text="Throttle.tla models the wrapper's lock queue, sliding window and sleep in exact integer time; TLC checks "
         "RateBound (no limit+1 starts within a period), ArrivalOrder, NoNeedlessDelay, Transparent and the liveness "
         "property EveryCallStarts for all arrival patterns / limits / periods / cancellations of waiting callers "
         "within the bounds; every controlled edge (arrive, tick, function end with value or exception, cancel a "
         "waiting caller) is replayed into the real throttle on the virtual loop and the start log + per-caller "
         "outcomes compared with the model. Also: calls arriving at the very instant a window slot frees (TickArrive), after the sleeper was woken and before the call that is handed the lock runs on.",
    technique="TLA+ spec + TLC exhaustive model checking incl. liveness; edge-complete graph replay with internal-"
              "action closure into the implementation in exact virtual time",
    design="5/C15")
INVS = ["TypeOK", "RateBound", "ArrivalOrder", "NoNeedlessDelay", "Transparent"]
INTERNAL = ["Decide", "Wake", "Settle"]
T0 = 1000.0


class Err(Exception):
    def __bool__(self):
        return False    # exceptions are user objects too: nothing may decide by their truthiness

    def __eq__(self, other):
        return isinstance(other, BaseException)     # exceptions that compare equal to each other (identity is what counts)

    def __hash__(self):
        return 19


class ThrottleDriver:
    def __init__(self):
        self.loop = None
        self.clock = None

    def reset(self, init):
        from haiway import throttle
        self.n = len(init["pc"])
        limit, period = init["limit"], init["period"]
        # one model tick is 1 s for a float period and 0.25 s for a timedelta period (exact in binary), so that the
        # timedelta has a sub-second part and a reading of `.seconds` instead of `.total_seconds()` would show
        self.unit = 1.0 if init["pform"] == "float" else 0.25
        self.loop = loop = VLoop(start=T0)
        self.clock = VClock(loop)
        self.clock.__enter__()
        self.now = 0
        self.starts = []
        self.res = ["none"] * self.n
        self.gates, self.tasks = {}, {}
        self.vals = {c: Falsy(c) for c in range(1, self.n + 1)}
        self.errs = {c: Err(f"call {c}") for c in range(1, self.n + 1)}
        drv = self

        async def fn(c, *, tag):
            assert tag == "t"
            t = (loop.time() - T0) / drv.unit
            drv.starts.append(dict(c=c, t=int(t) if t == int(t) else t))
            g = drv.gates[c] = loop.create_future()
            o = await g
            if o == "val":
                return drv.vals[c]
            raise drv.errs[c]

        p = float(period) if init["pform"] == "float" else timedelta(seconds=period * self.unit)
        if limit == 1 and init["pform"] == "float" and period == 1:
            self.wrapped = throttle(decoyed(fn))      # the defaults: the decorator used bare
        else:
            self.wrapped = throttle(limit=limit, period=p)(decoyed(fn))

    async def _caller(self, c):
        try:
            async with ctx.scope(f"caller{c}"):     # callers call from inside their own scopes
                r = await self.wrapped(c, tag="t")
            self.res[c - 1] = "val" if r is self.vals[c] else f"foreign value {r!r}"
        except asyncio.CancelledError:
            self.res[c - 1] = "cancelled"
        except BaseException as e:  # noqa: BLE001
            self.res[c - 1] = "exc" if e is self.errs[c] else f"foreign exception {e!r}"

    def _obs(self):
        self.loop.quiesce()
        o = dict(starts=tuple(dict(s) for s in self.starts), res=tuple(self.res))
        if self.loop.exceptions:
            o["loop_errors"] = [str(c.get("message")) for c in self.loop.exceptions]
        return o

    def apply(self, name, args):
        if name == "Arrive":
            c = args[0]
            self.tasks[c] = self.loop.create_task(self._caller(c))
        elif name == "TickArrive":
            # the caller is a task that exists already and is woken by a timer AT the next instant - registered now, so it
            # fires after every timer the throttle itself has set for that instant, and the caller runs on before a call
            # that is merely handed the lock at that instant does
            c = args[0]
            at = self.loop.create_future()
            self.loop.call_at(T0 + (self.now + 1) * self.unit, at.set_result, None)

            async def late():
                await at
                await self._caller(c)

            self.tasks[c] = self.loop.create_task(late())
            self.loop.quiesce()
            self.now += 1
            self.loop.advance(T0 + self.now * self.unit)
        elif name == "Jump":
            self.now += 2
            self.loop.advance(T0 + self.now * self.unit)      # the instant in between is skipped: its timers fire late
        elif name == "Tick":
            self.now += 1
            self.loop.advance(T0 + self.now * self.unit)
        elif name == "FnEnd":
            self.gates[args[0]].set_result(args[1])
        elif name == "Cancel":
            self.tasks[args[0]].cancel()
        else:
            raise ValueError(name)
        return self._obs()

    def close(self):
        try:
            if self.loop is not None:
                self.loop.shutdown()
        finally:
            if self.clock is not None:
                self.clock.__exit__(None, None, None)


def gen_trace(rnd, ncalls=12):
    """random arrival pattern of up to 12 calls (bursts, gaps around the period boundary), random function ends and
    cancellations of waiting callers, recorded from the real throttle"""
    limit, period, pform = rnd.choice([1, 2, 3, 4]), rnd.choice([2, 3, 5]), rnd.choice(["float", "timedelta"])
    d = ThrottleDriver()
    pc = ["idle"] * ncalls
    init = dict(limit=limit, period=period, pform=pform, pc=pc)
    d.reset(init)
    tr = [dict(ev="Init", init=dict(limit=limit, period=period, pform=pform))]
    arrived = 0
    try:
        for _ in range(rnd.randint(20, 45)):
            started = {s["c"] for s in d.starts}
            running = [c for c in started if d.res[c - 1] == "none" and c in d.gates and not d.gates[c].done()]
            waiting = [c for c in range(1, arrived + 1) if c not in started and d.res[c - 1] == "none"]
            ch = [("Tick", [])] * 3 + [("Jump", [])]
            if arrived < ncalls:
                ch += [("Arrive", [arrived + 1])] * (6 if rnd.random() < 0.5 else 2)
                ch += [("TickArrive", [arrived + 1])] * 2
            for c in running:
                ch.append(("FnEnd", [c, rnd.choice(["val", "exc"])]))
            if waiting and rnd.random() < 0.3:
                ch.append(("Cancel", [rnd.choice(waiting)]))
            name, args = rnd.choice(ch)
            if name in ("Arrive", "TickArrive"):
                arrived += 1
            o = d.apply(name, tuple(args))
            tr.append(dict(ev=name, args=args, obs=dict(starts=[dict(x) for x in o["starts"]], res=list(o["res"]))))
        # let everything finish: tick until nobody waits, end every running function
        for _ in range(200):
            started = {s["c"] for s in d.starts}
            running = [c for c in started if d.res[c - 1] == "none" and c in d.gates and not d.gates[c].done()]
            waiting = [c for c in range(1, arrived + 1) if c not in started and d.res[c - 1] == "none"]
            if running:
                name, args = "FnEnd", [running[0], "val"]
            elif waiting:
                name, args = "Tick", []
            else:
                break
            o = d.apply(name, tuple(args))
            tr.append(dict(ev=name, args=args, obs=dict(starts=[dict(x) for x in o["starts"]], res=list(o["res"]))))
    finally:
        d.close()
    return tr


def consts(tier, **kw):
    c = dict(NCalls=3, Limits=[1, 2], Periods=[2, 3], MaxT=4, Late=False, Bug="none") if tier == "quick" else \
        dict(NCalls=4, Limits=[1, 2, 3], Periods=[2, 3], MaxT=4, Late=False, Bug="none")
    c.update(kw)
    return c


def run(rep, work, tier, seed):
    c = consts(tier)
    rep.extra["constants"] = c
    big = dict(NCalls=4, Limits=[1, 2, 3], Periods=[2, 3], MaxT=5, Late=False, Bug="none") if tier == "quick" else \
        dict(NCalls=5, Limits=[1, 2, 3], Periods=[2, 3], MaxT=6, Late=False, Bug="none")
    # leg M on a larger instance without cancellations first (pure rate-limiting), then with everything + liveness
    leg_m(rep, work, SPEC, f"mc_{tier}", cfg_text(c, spec="Spec", invariants=INVS, properties=["EveryCallStarts"]),
          expect_actions=["Decide", "Wake", "Arrive", "Tick", "FnEnd", "Cancel"])
    leg_m(rep, work, SPEC, f"mc_big_{tier}", cfg_text(big, invariants=INVS),
          timeout=3000)
    if tier == "thorough":
        for bug, inv in (("no_wait", ["RateBound"]), ("short", ["RateBound"]), ("gt_limit", ["RateBound"]),
                         ("prune_lt", ["NoNeedlessDelay", "RateBound"])):
            leg_mutant(rep, work, SPEC, f"mutant_{bug}", cfg_text(consts("quick", Bug=bug), invariants=INVS), inv)
    leg_r(rep, work, SPEC, f"conf_{tier}", cfg_text(c, invariants=INVS), ThrottleDriver, internal=INTERNAL)
    # calls arriving at the very instant a window slot frees, with a sleeper waking and another call queued on the lock
    late = dict(NCalls=5, Limits=[2], Periods=[1] if tier == "quick" else [1, 2], MaxT=1 if tier == "quick" else 2, Late=True, Bug="none")
    leg_m(rep, work, SPEC, f"late_mc_{tier}", cfg_text(late, invariants=INVS), expect_actions=["TickArrive", "Jump", "Wake", "Decide"])
    leg_r(rep, work, SPEC, f"late_conf_{tier}", cfg_text(late, invariants=INVS), ThrottleDriver, internal=INTERNAL)
    # the decorator used bare (`@throttle`: limit 1, period 1 second)
    bare = dict(NCalls=3, Limits=[1], Periods=[1], MaxT=3, Late=False, Bug="none")
    leg_r(rep, work, SPEC, f"bare_conf_{tier}", cfg_text(bare, invariants=INVS), ThrottleDriver, internal=INTERNAL)
    # leg T: arrival patterns of up to 12 calls recorded from the real throttle, validated by a trace module generated
    # from Throttle.tla (internal Decide / Wake / Settle steps run silently between the logged events)
    rnd = random.Random(seed * 17 + 3)
    traces = gen_traces(rep, lambda: gen_trace(rnd), 120 if tier == "quick" else 1500)
    leg_t_gen(rep, work, SPEC, f"trace_{tier}", traces,
              variables=["limit", "period", "pform", "now", "entries", "lockq", "pc", "wake", "arrived", "starts", "res", "obs"],
              constants=dict(NCalls=12, Limits="1..4", Periods="{2, 3, 5}", MaxT=100000, Bug='"none"', Late="TRUE"),
              config_vars=["limit", "period", "pform"], actions=dict(Arrive=1, TickArrive=1, Tick=0, Jump=0, FnEnd=2, Cancel=1),
              internal="(M!Internal \\/ M!Settle)", quiet="M!Rest",
              invariants=["RateBound", "ArrivalOrder", "NoNeedlessDelay", "Transparent"])
    rep.assumptions += [
        "exact integer virtual time (time.monotonic and the loop clock read the same virtual clock); float rounding "
        "of real clocks is outside the model",
        "callers are asyncio tasks on one loop (the wrapper documents that it is not thread safe)",
    ]
    # the decorator stacked with the others (Stack.tla): every layer acts on the layer below it
    from props.stack_common import stack_legs
    stack_legs(rep, work, tier, "throttle")
    return rep.finish(exhaustive=True,
                      rule="all interleavings of {arrive (index order), tick, function end (value|exception), cancel a "
                           "waiting caller} for every limit/period/period-form within NCalls and MaxT; every controlled "
                           "edge replayed into the real throttle")


def replay(rep, record):
    from harness.graph import parse_label
    if record.get("spec") == "Stack":
        from props.stack_common import replay_stack
        return replay_stack(record)
    d = ThrottleDriver()
    d.reset(record["init"])
    print("  config:", {k: record["init"][k] for k in ("limit", "period", "pform")})
    try:
        for lab in record["path"]:
            name, args = parse_label(lab)
            print(f"  {lab} -> {d.apply(name, args)}")
    finally:
        d.close()
