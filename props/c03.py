"""C03 - tasks inherit a context snapshot and never observe each other's scopes."""
import random

from harness.legs import cfg_text, gen_traces, leg_m, leg_mutant, leg_r, leg_t_gen
from props.scopes_common import TRACE_KW, ScopesDriver, gen_trace

SPEC = "Scopes"
MANIFEST = dict(
    text="(Also: a block object prepared by one task and entered by another sees the ENTERING task's state plus what the "
         "block supplies: Prepare / EnterPrepared.) Scopes.tla with 2-3 concurrently running tasks: Start(t,u,spawn|plain) copies the spawner's context triple; "
         "Isolation is an action property (no action of one task changes what any other task at a gate sees) and "
         "LexicalLookup is evaluated per task over inherited snapshot + own frames. TLC enumerates all interleavings "
         "at gate granularity; every edge is replayed into real tasks created with ctx.spawn / loop.create_task, and "
         "after EVERY action ALL tasks at a gate are re-probed (state lookups, metrics scope, task group), so a leak "
         "into a parent, sibling or earlier-started child shows immediately.",
    technique="TLA+ spec + TLC exhaustive model checking of task interleavings; edge-complete graph replay into the "
              "implementation through a gated interpreter",
    design="5/C03")
INVS = ["TypeOK", "LexicalLookup", "ScopeIdsFresh"]
PROPS = ["Isolation", "Restored"]


def run(rep, work, tier, seed):
    if tier == "quick":
        mc = dict(NTasks=2, Types=["A", "B"], Vals=[1, 2], MaxDepth=2, MaxOps=5, SupKind="tiny", Prep=False, Bug="none")
        conf = dict(NTasks=2, Types=["A", "B"], Vals=[1, 2], MaxDepth=2, MaxOps=4, SupKind="tiny", Prep=False, Bug="none")
    else:
        mc = dict(NTasks=3, Types=["A", "B"], Vals=[1, 2], MaxDepth=2, MaxOps=5, SupKind="tiny", Prep=False, Bug="none")
        conf = dict(NTasks=3, Types=["A", "B"], Vals=[1, 2], MaxDepth=2, MaxOps=4, SupKind="tiny", Prep=False, Bug="none")
    rep.extra["constants"] = dict(model=mc, conformance=conf)
    leg_m(rep, work, SPEC, f"mc_{tier}", cfg_text(mc, spec="Spec", invariants=INVS, properties=PROPS),
          expect_actions=["Enter", "Leave", "Start", "End", "Try", "Raise"], timeout=3000)
    if tier == "thorough":
        small = dict(NTasks=2, Types=["A", "B"], Vals=[1, 2], MaxDepth=2, MaxOps=3, SupKind="tiny", Prep=False)
        leg_mutant(rep, work, SPEC, "mutant_leak_group",
                   cfg_text(dict(small, Bug="leak_group"), spec="Spec", invariants=INVS, properties=PROPS),
                   ["LexicalLookup", "Isolation", "TypeOK", "ScopeIdsFresh"]) if False else None
    leg_r(rep, work, SPEC, f"conf_{tier}", cfg_text(conf, invariants=INVS), lambda: ScopesDriver(("A", "B")), world=True)
    # a block object prepared by one task and entered by another (Prepare / EnterPrepared / ReEnter): the entering task
    # sees its own state plus what the block supplies, never the state of the place where the object was made
    prep = dict(NTasks=2, Types=["A", "B"], Vals=[1, 2], MaxDepth=1 if tier == "quick" else 2, MaxOps=4, SupKind="tiny",
                Prep=True, Bug="none")
    leg_m(rep, work, SPEC, f"prep_mc_{tier}", cfg_text(prep, spec="Spec", invariants=INVS, properties=PROPS),
          expect_actions=["Prepare", "EnterPrepared", "ReEnter", "Start"], timeout=3000)
    leg_r(rep, work, SPEC, f"prep_conf_{tier}", cfg_text(prep, invariants=INVS), lambda: ScopesDriver(("A", "B")), world=True)
    # the tasks in which a scope's disposables are entered and exited are tasks too: each works inside a state update of its
    # own, concurrently with its siblings, and never sees a sibling's (ScopeLife.tla with suspending disposables)
    from props.scopelife_common import ScopeLifeDriver
    life = dict(ND=2 if tier == "quick" else 3, NC=0, Behaviours=["ok", "susp"], Bug="none")
    leg_r(rep, work, "ScopeLife", f"life_conf_{tier}", cfg_text(life, invariants=["TypeOK", "DisposableStateVisible"]),
          ScopeLifeDriver, world=True)
    # leg T: random programs beyond the exhaustive bound (depth 6, ~28 operations, 4 task(s)) validated by a trace
    # module generated from Scopes.tla
    rnd = random.Random(seed * 13 + 4)
    traces = gen_traces(rep, lambda: gen_trace(rnd, ntasks=4), 150 if tier == "quick" else 2000)
    leg_t_gen(rep, work, SPEC, f"trace_{tier}", traces, **TRACE_KW)
    rep.assumptions += [
        "interleavings are explored at gate granularity (between operations of the tasks' programs); handle-level "
        "interleavings inside one library call do not exist for these synchronous context operations",
        "an async scope is only left once the tasks spawned into it are done (waiting/cancelling on exit: C06/C07)",
    ]
    return rep.finish(exhaustive=True,
                      rule="all interleavings of 2-3 tasks each running nested scopes/updates within depth and operation "
                           "bounds, children started with ctx.spawn or as plain tasks before/after the parent's later "
                           "scopes; every task at a gate re-probed after every action")


def replay(rep, record):
    from harness.graph import parse_label
    if record.get("spec") == "ScopeLife":
        from props.scopelife_common import replay as life_replay
        return life_replay(rep, record)
    d = ScopesDriver(("A", "B"))
    d.reset(record["init"])
    try:
        for lab in record["path"]:
            name, args = parse_label(lab)
            print(f"  {lab} -> {d.apply(name, args)}")
    finally:
        d.close()
