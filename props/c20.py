"""C20 - MISSING is a process-wide singleton under every way of obtaining it."""
import copy
import pickle

from haiway import MISSING, Missing, State, is_missing, not_missing, when_missing

from harness.legs import cfg_text, leg_m, leg_mutant, leg_r

SPEC = "Missing"
MANIFEST = dict(
    text="Missing.tla enumerates container shapes holding MISSING (bare, list, tuple, dict value, nested, State attribute, "
         "State inside a list) x ways of obtaining a missing value (calling the type, copy, deepcopy, pickle protocols "
         "0-5) and look-alike probes (None, False, 0, '', (), an object whose __eq__ always answers True, another "
         "state) in both operand orders; TLC checks Singleton, ObtainWorks, EqOnlySelf, PredicatesAgree, FalsyNoAttrs on "
         "every state; every edge is replayed and the identity (`is`) of every Missing-typed object reachable in the "
         "result is counted. Identity has no dynamics: the specification contributes the exhaustive enumeration and a "
         "precise statement.",
    technique="TLA+ spec + TLC exhaustive enumeration of shapes x operations with invariants; every edge replayed into the "
              "implementation",
    design="5/C20")
INVS = ["Singleton", "ObtainWorks", "EqOnlySelf", "PredicatesAgree", "FalsyNoAttrs"]
SHAPES = ["bare", "list", "tuple", "dict", "nested", "state", "state_in_list"]


class Holder(State):
    w: int | Missing = MISSING
    n: int = 1


class AlwaysEqual:
    def __eq__(self, other):
        return True

    def __hash__(self):
        return 1


def build(shape):
    return {
        "bare": lambda: MISSING,
        "list": lambda: [1, MISSING],
        "tuple": lambda: (MISSING, "x"),
        "dict": lambda: {"k": MISSING},
        "nested": lambda: {"a": [(MISSING,), {"b": MISSING}]},
        "state": lambda: Holder(),
        "state_in_list": lambda: [Holder(), Holder(w=2)],
    }[shape]()


def missing_objects(o, out):
    if isinstance(o, Missing):
        out.append(o)
    elif isinstance(o, (list, tuple, set, frozenset)):
        for x in o:
            missing_objects(x, out)
    elif isinstance(o, dict):
        for k, v in o.items():
            missing_objects(k, out)
            missing_objects(v, out)
    elif isinstance(o, State):
        for k in type(o).__ATTRIBUTES__ if hasattr(type(o), "__ATTRIBUTES__") else ():
            missing_objects(getattr(o, k, None), out)
        missing_objects(list(vars(o).values()), out)
    return out


class _Slotted:
    """layout-compatible with Missing: what `MISSING.__class__ = ...` would accept if nothing forbade it"""

    __slots__ = ()


class ClaimsClass:
    """not MISSING, yet `isinstance(x, Missing)` says True: __class__ is an ordinary attribute lookup"""

    @property
    def __class__(self):
        return Missing


LOOK = {"MISSING": lambda: MISSING, "None": lambda: None, "False": lambda: False, "zero": lambda: 0,
        "empty_str": lambda: "", "empty_tuple": lambda: (), "always_equal": AlwaysEqual, "other_state": Holder,
        "claims_class": ClaimsClass, "forged": lambda: object.__new__(Missing)}
SENTINEL = object()


def _never_called():
    raise AssertionError("the fallback was called instead of being handed over")


# fallbacks of every kind - also callables (functions and classes are ordinary values of function-typed attributes),
# falsy ones and the missing value itself: the very object comes back
FALLBACKS = (SENTINEL, _never_called, dict, None, 0, "", MISSING)


def _when(x):
    try:
        got = [when_missing(x, fb) for fb in FALLBACKS]
    except BaseException as e:  # noqa: BLE001
        return f"raised {type(e).__name__}: {e}"[:80]
    if all(g is fb for g, fb in zip(got, FALLBACKS)):
        return "default"
    if all(g is x for g in got):
        return "value"
    return "odd: " + repr([type(g).__name__ for g in got])[:80]
BASE = dict(fresh=0, ok="ok", eq=(False, False), pred=("none", "none", "none"), attrs="none")


class MissingDriver:
    def reset(self, init):
        self.shape = init["shape"]

    def apply(self, name, args):
        if name == "Obtain":
            op = args[0]
            src = build(self.shape)
            try:
                if op == "call":
                    res = Missing()
                elif op == "copy":
                    res = copy.copy(src)
                elif op == "deepcopy":
                    res = copy.deepcopy(src)
                else:
                    res = pickle.loads(pickle.dumps(src, protocol=int(op[-1])))
            except Exception as e:  # noqa: BLE001
                if op.startswith("pickle") and self.shape in ("state", "state_in_list"):
                    return dict(BASE, k="obtain", ok="unpicklable")
                return dict(BASE, k="obtain", ok=f"{type(e).__name__}: {e}"[:160])
            found = missing_objects(res, [])
            expected = len(missing_objects(src, []))
            fresh = sum(1 for m in found if m is not MISSING)
            ok = "ok" if len(found) == expected else f"{len(found)} missing values in the result, {expected} in the source"
            if isinstance(src, State) and ok == "ok" and not (res == src):
                ok = "copied state differs from the original"
            return dict(BASE, k="obtain", fresh=fresh, ok=ok)
        if name == "Probe":
            x = LOOK[args[0]]()
            return dict(BASE, k="probe", eq=(bool(MISSING == x), bool(x == MISSING)),
                        pred=("is_missing" if is_missing(x) else "not_missing" if not_missing(x) else "neither",
                              _when(x),
                              "falsy"))
        if name == "Inspect":
            rejected = True
            real = type(MISSING)
            for f in (lambda: MISSING.anything, lambda: setattr(MISSING, "a", 1), lambda: delattr(MISSING, "a"),
                      # the special names through which the one object could be turned into something else
                      lambda: setattr(MISSING, "__class__", _Slotted), lambda: setattr(MISSING, "__dict__", {}),
                      lambda: delattr(MISSING, "__class__"), lambda: setattr(MISSING, "__slots__", ("a",)),
                      # ... and the back doors past the object's own __getattr__ / __setattr__: its namespace, the
                      # object-level setter (the singleton has no instance dictionary and no slots to write to)
                      lambda: MISSING.__dict__, lambda: vars(MISSING), lambda: object.__setattr__(MISSING, "back_door", 1),
                      lambda: object.__getattribute__(MISSING, "__dict__")):
                try:
                    f()
                    rejected = False
                except Exception:  # noqa: BLE001  - rejected, whatever the exception type
                    pass
                finally:
                    if type(MISSING) is not real:       # undo, so that the rest of the run sees the real thing
                        object.__setattr__(MISSING, "__class__", real)
            return dict(BASE, k="inspect", eq=(bool(MISSING == MISSING), not bool(MISSING != MISSING)),
                        pred=("none", "none", "falsy" if not MISSING else "truthy"),
                        attrs="rejected" if rejected else "allowed")
        raise ValueError(name)

    def close(self):
        pass


def run(rep, work, tier, seed):
    c = dict(Shapes=SHAPES, Bug="none")
    rep.extra["constants"] = c
    leg_m(rep, work, SPEC, f"mc_{tier}", cfg_text(c, invariants=INVS), expect_actions=["Obtain", "Probe", "Inspect"])
    if tier == "thorough":
        leg_mutant(rep, work, SPEC, "mutant_copy_makes_new", cfg_text(dict(c, Bug="copy_makes_new"), invariants=INVS), ["Singleton"])
        leg_mutant(rep, work, SPEC, "mutant_eq_any_falsy", cfg_text(dict(c, Bug="eq_any_falsy"), invariants=INVS), ["EqOnlySelf"])
    leg_r(rep, work, SPEC, f"conf_{tier}", cfg_text(c, invariants=INVS), MissingDriver, nproc=1, opt=True)
    rep.assumptions += ["object identity within one interpreter process; sub-interpreters / multiprocessing are out of scope"]
    return rep.finish(exhaustive=True,
                      rule="every (shape x {call, copy, deepcopy, pickle protocol 0..5}) and every look-alike probe in both "
                           "operand orders; every edge replayed")


def replay(rep, record):
    from harness.graph import parse_label
    d = MissingDriver()
    d.reset(record["init"])
    print("  shape:", record["init"]["shape"])
    for lab in record["path"]:
        name, args = parse_label(lab)
        print(f"  {lab} -> {d.apply(name, args)}")
