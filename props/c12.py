"""C12 - cache returns only right-key, unexpired results and retains the LRU `limit`."""
import random

from harness.decoys import decoyed
from harness.legs import cfg_text, gen_traces, leg_m, leg_mutant, leg_r, leg_t_gen
from harness.vloop import VClock, VLoop

SPEC = "Cache"
MANIFEST = dict(
    text="Cache.tla models the LRU table with expiry for the four forms (sync/async x function/method) called "
         "sequentially under an environment-moved clock; C12 is stated over ghost histories, independently of the "
         "table: Sound (right key incl. argument types and receiver instance, never older than the expiration), "
         "Complete (action property: no invocation when the key is among the `limit` most recently used and "
         "unexpired), Capacity. TLC checks all histories within the bounds; every edge is replayed into the real "
         "decorator (keys -1 / -1.0 / -2 / x=-1 / True / 1: ==-equal of different types, unequal with equal hashes; ==-equal receivers) and a Drain edge from EVERY state calls every key "
         "once more so that hidden LRU order / expiry / eviction state is compared too. Also: re-entrant calls (CallNested: the function body calls the same cached function - memoised recursion) in the synchronous forms; the key alphabet includes the call without arguments and unequal arguments with equal hashes.",
    technique="TLA+ spec + TLC exhaustive model checking (history-based invariants and action property); edge-complete "
              "graph replay into the implementation in exact virtual time",
    design="5/C12")
INVS = ["TypeOK", "Capacity", "NoDuplicateKeys", "Sound"]
T0 = 1000.0
# the key alphabet: ==-equal arguments of different types (-1 / -1.0, True / 1), positional against keyword, and UNEQUAL
# arguments of one type with EQUAL hashes (hash(-1) == hash(-2) in CPython): a key is matched by equality, not by hash
# ... and the call with NO arguments at all (its key is empty - and a key all the same)
ARGS = {1: ((-1,), {}), 2: ((-1.0,), {}), 3: ((), {"x": -1}), 4: ((), {"x": -1.0}), 5: ((-2,), {}), 6: ((), {}), 7: ((True,), {}), 8: ((1,), {})}


class Val:
    """what the cached function returns: tied to its invocation - and falsy (a cached falsy result is still a result)"""

    def __init__(self, n):
        self.n = n

    def __bool__(self):
        return False


class Err(Exception):
    def __init__(self, n):
        super().__init__(f"invocation {n}")
        self.n = n

    def __bool__(self):
        return False

    def __eq__(self, other):
        return isinstance(other, BaseException)     # exceptions that compare equal to each other (identity is what counts)

    def __hash__(self):
        return 19


class Recv:
    """receivers are ==-equal and hash-equal but distinct instances"""

    def __init__(self, idx, gen=0):
        self.idx = idx
        self.gen = gen      # which instance in slot idx this is (slots get new instances: Renew)

    def __eq__(self, other):
        return isinstance(other, Recv)

    def __bool__(self):
        return False      # a receiver may be falsy (a collection-like object that is empty): it is still a receiver

    def __hash__(self):
        return 7


def same_typed(a, b):
    return type(a) is type(b) and a == b


class CacheDriver:
    def __init__(self):
        self.loop = None
        self.clock = None

    def reset(self, init):
        from haiway import cache
        self.form, limit, expn = init["form"], init["limit"], init["expn"]
        self.loop = VLoop(start=T0)
        self.clock = VClock(self.loop)
        self.clock.__enter__()
        self.now = 0
        self.invs = []  # (receiver, args, kwargs) per invocation
        self.next_out = "val"
        self.objs = {}
        self.nest = self.inner = None
        self.slow = 0
        drv = self
        kw = dict(limit=limit, expiration=float(expn) if expn else None)
        if limit == 1 and not expn:
            # the defaults: the decorator is used BARE (`@cache`), without arguments or parentheses
            _plain = cache

            def cache(**_):      # noqa: F811
                return _plain

        def body(recv, args, kwargs):
            # (the receiver is remembered by slot and generation, not by reference: a discarded one has to be collectable)
            drv.invs.append((None if recv is None else (recv.idx, recv.gen), args, kwargs))
            n = len(drv.invs)
            if drv.slow:
                # a slow computation: the clock moves on while the function runs
                dt, drv.slow = drv.slow, 0
                drv.now += dt
                drv.loop.advance(T0 + drv.now)
            if drv.nest is not None:
                # re-entrancy: this invocation calls the same cached function (same receiver) with other arguments
                # before it returns
                r2, key2 = drv.nest
                drv.nest = None
                drv.inner = drv._invoke(r2, key2)
            if drv.next_out == "val":
                o = drv.objs[n] = Val(n)
                return o
            o = drv.objs[n] = Err(n)
            raise o

        if self.form == "sync_fn":
            @cache(**kw)
            @decoyed
            def f(*args, **kwargs):
                return body(None, args, kwargs)
            self.call = lambda r, a, k: f(*a, **k)
        elif self.form == "async_fn":
            @cache(**kw)
            @decoyed
            async def f(*args, **kwargs):
                return body(None, args, kwargs)
            self.call = lambda r, a, k: f(*a, **k)
        elif self.form == "sync_method":
            class Holder(Recv):
                @cache(**kw)
                @decoyed
                def m(self, *args, **kwargs):
                    return body(self, args, kwargs)
            self.recv = {i: Holder(i) for i in range(1, init.get("_nrecv", 3) + 1)}
            self.call = lambda r, a, k: self.recv[r].m(*a, **k)
        else:
            class Holder(Recv):
                @cache(**kw)
                @decoyed
                async def m(self, *args, **kwargs):
                    return body(self, args, kwargs)
            self.recv = {i: Holder(i) for i in range(1, init.get("_nrecv", 3) + 1)}
            self.call = lambda r, a, k: self.recv[r].m(*a, **k)

    def _invoke(self, r, key):
        args, kwargs = ARGS[key]
        before = len(self.invs)
        try:
            if self.form.startswith("async"):
                t = self.loop.create_task(self.call(r, args, kwargs))
                self.loop.quiesce()
                if not t.done():
                    return dict(inv="HANG", fresh=False, out="none")
                got = ("val", t.result()) if t.exception() is None else ("exc", t.exception())
            else:
                try:
                    got = ("val", self.call(r, args, kwargs))
                except Exception as e:  # noqa: BLE001
                    got = ("exc", e)
        finally:
            pass
        fresh = len(self.invs) > before
        o = got[1]
        n = getattr(o, "n", None)
        if n is None or self.objs.get(n) is not o:
            return dict(inv=f"foreign {got[0]}: {o!r}", fresh=fresh, out=got[0])
        recv, a, k = self.invs[n - 1]
        want_recv = (self.recv[r].idx, self.recv[r].gen) if self.form.endswith("method") else None
        right = recv == want_recv and len(a) == len(args) and all(same_typed(x, y) for x, y in zip(a, args)) and \
            set(k) == set(kwargs) and all(same_typed(k[x], kwargs[x]) for x in k)
        if not right:
            return dict(inv=f"WRONG-KEY: result of invocation {n} made for receiver "
                            f"{recv} args {a!r} {k!r}", fresh=fresh, out=got[0])
        return dict(inv=n, fresh=fresh, out=got[0])

    def apply(self, name, args):
        if name == "Advance":
            self.now += args[0]
            self.loop.advance(T0 + self.now)
            return self.last
        if name == "Call":
            r, key, o = args
            self.next_out = o
            res = self._invoke(r, key)
            self.last = dict(inv=res["inv"], fresh=res["fresh"], out=res["out"], at=self.now, drain=())
            return self.last
        if name == "CallSlow":
            r, key, dt = args
            self.next_out = "val"
            self.slow = dt
            res = self._invoke(r, key)
            self.slow = 0
            self.last = dict(inv=res["inv"], fresh=res["fresh"], out=res["out"], at=self.now, drain=())
            return self.last
        if name == "CallNested":
            r, key, key2 = args
            self.next_out = "val"
            self.nest, self.inner = (r, key2), None
            res = self._invoke(r, key)
            self.nest = None
            inner = () if self.inner is None else (self.inner["inv"],)
            self.last = dict(inv=res["inv"], fresh=res["fresh"], out=res["out"], at=self.now, drain=inner)
            return self.last
        if name == "Renew":
            # the instance in the slot is dropped - really dropped: collected - and a new one takes the slot (the
            # allocator tends to hand out the very same address again)
            r = args[0]
            cls, gen = type(self.recv[r]), self.recv[r].gen
            old_id = id(self.recv[r])
            del self.recv[r]              # nothing else refers to it: reference counting frees it at once
            self.recv[r] = cls(r, gen + 1)
            self.reused = getattr(self, "reused", 0) + (id(self.recv[r]) == old_id)
            return self.last
        if name == "Drain":
            self.next_out = "val"
            out = []
            rs = sorted(self.recv) if self.form.endswith("method") else [0]
            for r in rs:
                for key in range(1, self.nkeys + 1):
                    out.append(self._invoke(r, key)["inv"])
            return dict(inv=0, fresh=False, out="none", at=self.now, drain=tuple(out))
        raise ValueError(name)

    last = dict(inv=0, fresh=False, out="none", at=0, drain=())

    def close(self):
        try:
            if self.loop is not None:
                self.loop.shutdown()
        finally:
            if self.clock is not None:
                self.clock.__exit__(None, None, None)


def gen_trace(rnd, length):
    form = rnd.choice(ALL_FORMS)
    limit = rnd.choice([1, 2, 2, 3, 4])
    expn = rnd.choice([0, 2, 3, 5])
    d = factory(8, 3)()
    d.reset(dict(form=form, limit=limit, expn=expn))
    tr = [dict(ev="Init", init=dict(form=form, limit=limit, expn=expn))]
    nkeys = rnd.choice([2, 4, 8])
    try:
        for _ in range(length):
            if form.endswith("method") and rnd.random() < 0.08:
                args = [rnd.choice([1, 2, 3])]
                name = "Renew"
            elif rnd.random() < 0.25:
                args = [rnd.choice([1, 1, 2, 3])]
                name = "Advance"
            elif form.startswith("sync") and nkeys >= 2 and rnd.random() < 0.2:
                r = rnd.choice([1, 2, 3]) if form.endswith("method") else 0
                k = rnd.randint(1, nkeys)
                args = [r, k, rnd.choice([x for x in range(1, nkeys + 1) if x != k])]
                name = "CallNested"
            elif form.startswith("sync") and rnd.random() < 0.15:
                r = rnd.choice([1, 2, 3]) if form.endswith("method") else 0
                args = [r, rnd.randint(1, nkeys), rnd.choice([1, 2, 3])]
                name = "CallSlow"
            else:
                r = rnd.choice([1, 2, 3]) if form.endswith("method") else 0
                args = [r, rnd.randint(1, nkeys), "exc" if rnd.random() < 0.15 else "val"]
                name = "Call"
            o = d.apply(name, tuple(args))
            tr.append(dict(ev=name, args=args, obs=dict(o, drain=list(o["drain"]))))
        o = d.apply("Drain", ())
        tr.append(dict(ev="Drain", args=[], obs=dict(o, drain=list(o["drain"]))))
    finally:
        d.close()
    return tr


def factory(nkeys, nrecv):
    def make():
        d = CacheDriver()
        d.nkeys = nkeys
        orig = d.reset

        def reset(init):
            init = dict(init)
            init["_nrecv"] = nrecv
            orig(init)
        d.reset = reset
        return d
    return make


ALL_FORMS = ["sync_fn", "sync_method", "async_fn", "async_method"]


FN = ["sync_fn", "async_fn"]
METH = ["sync_method", "async_method"]


def groups(tier):
    """(name, model-checking constants, conformance constants) - function forms and method forms separately,
    because the method forms multiply the branching by the number of receivers"""
    if tier == "quick":
        return [
            ("fn", dict(NKeys=3, NRecv=1, Forms=FN, Limits=[1, 2, 3], Expirations=[0, 2], MaxT=3, MaxOps=5, Outs=["val", "exc"], Steps=[1], MaxRenew=1, Nested=False, Bug="none"),
             dict(NKeys=5, NRecv=1, Forms=FN, Limits=[1, 2], Expirations=[0, 2], MaxT=3, MaxOps=3, Outs=["val", "exc"], Steps=[1], MaxRenew=1, Nested=False, Bug="none")),
            ("method", dict(NKeys=2, NRecv=2, Forms=METH, Limits=[1, 2, 3], Expirations=[0, 2], MaxT=3, MaxOps=5, Outs=["val", "exc"], Steps=[1], MaxRenew=1, Nested=False, Bug="none"),
             dict(NKeys=2, NRecv=2, Forms=METH, Limits=[1, 2], Expirations=[0, 2], MaxT=3, MaxOps=3, Outs=["val", "exc"], Steps=[1], MaxRenew=1, Nested=False, Bug="none")),
            # longer histories on a narrow configuration: expiry and LRU order interacting (re-stored keys, eviction
            # after a refresh) need 6+ operations to show
            ("deep", dict(NKeys=3, NRecv=1, Forms=["sync_fn"], Limits=[2], Expirations=[2], MaxT=6, MaxOps=7, Outs=["val"], Steps=[3], MaxRenew=0, Nested=False, Bug="none"),
             dict(NKeys=3, NRecv=1, Forms=["sync_fn", "async_fn"], Limits=[2], Expirations=[2], MaxT=6, MaxOps=6, Outs=["val"], Steps=[3], MaxRenew=0, Nested=False, Bug="none")),
            # re-entrancy: the function body calls the same cached function (memoised recursion), synchronous forms
            ("nested", dict(NKeys=3, NRecv=1, Forms=["sync_fn", "sync_method"], Limits=[1, 2], Expirations=[0, 2], MaxT=3, MaxOps=4, Outs=["val"], Steps=[1, 2], MaxRenew=0, Nested=True, Bug="none"),
             dict(NKeys=3, NRecv=1, Forms=["sync_fn", "sync_method"], Limits=[1, 2], Expirations=[0, 2], MaxT=3, MaxOps=3, Outs=["val"], Steps=[1, 2], MaxRenew=0, Nested=True, Bug="none")),
        ]
    return [
        ("fn", dict(NKeys=3, NRecv=1, Forms=FN, Limits=[1, 2, 3], Expirations=[0, 2, 3], MaxT=4, MaxOps=6, Outs=["val", "exc"], Steps=[1], MaxRenew=1, Nested=False, Bug="none"),
         dict(NKeys=5, NRecv=1, Forms=FN, Limits=[1, 2, 3], Expirations=[0, 2], MaxT=3, MaxOps=4, Outs=["val", "exc"], Steps=[1], MaxRenew=1, Nested=False, Bug="none")),
        ("method", dict(NKeys=2, NRecv=2, Forms=METH, Limits=[1, 2, 3], Expirations=[0, 2, 3], MaxT=4, MaxOps=6, Outs=["val", "exc"], Steps=[1], MaxRenew=1, Nested=False, Bug="none"),
         dict(NKeys=2, NRecv=2, Forms=METH, Limits=[1, 2, 3], Expirations=[0, 2], MaxT=3, MaxOps=4, Outs=["val", "exc"], Steps=[1], MaxRenew=1, Nested=False, Bug="none")),
        ("nested", dict(NKeys=3, NRecv=1, Forms=["sync_fn", "sync_method"], Limits=[1, 2], Expirations=[0, 2], MaxT=4, MaxOps=5, Outs=["val"], Steps=[1, 2], MaxRenew=0, Nested=True, Bug="none"),
         dict(NKeys=3, NRecv=1, Forms=["sync_fn", "sync_method"], Limits=[1, 2], Expirations=[0, 2], MaxT=4, MaxOps=4, Outs=["val"], Steps=[1, 2], MaxRenew=0, Nested=True, Bug="none")),
    ]


def run(rep, work, tier, seed):
    gs = groups(tier)
    rep.extra["constants"] = {g[0]: dict(model=g[1], conformance=g[2]) for g in gs}
    for name, mc, conf in gs:
        leg_m(rep, work, SPEC, f"mc_{name}_{tier}", cfg_text(mc, spec="Spec", invariants=INVS, properties=["Complete"]),
              expect_actions=["Call", "Advance", "Drain"] + (["Renew"] if name == "method" else []) + (["CallNested", "CallSlow"] if name == "nested" else []), timeout=3000)
    if tier == "thorough":
        small = dict(NKeys=3, NRecv=1, Forms=["sync_fn"], Limits=[1, 2], Expirations=[0, 2], MaxT=4, MaxOps=5,
                     Outs=["val", "exc"], Steps=[1], MaxRenew=0, Nested=False)
        for bug, inv in (("fifo", ["Complete"]), ("expiry_le", ["Complete"]), ("ge_limit", ["Complete"]),
                         ("evict_newest", ["Complete"])):
            leg_mutant(rep, work, SPEC, f"mutant_{bug}",
                       cfg_text(dict(small, Bug=bug), spec="Spec", invariants=INVS, properties=["Complete"]), inv)
    for name, mc, conf in gs:
        leg_r(rep, work, SPEC, f"conf_{name}_{tier}", cfg_text(conf, invariants=INVS),
              factory(conf["NKeys"], conf["NRecv"]))
    # the async forms with an invocation still in flight when its entry expires or is evicted (concurrency proper is C13)
    from props.c13 import FlightDriver
    flight = dict(NCallers=2, NKeys=2, Limits=[1], Expirations=[2], MaxT=3, MaxOps=5 if tier == "quick" else 6, Bug="none")
    leg_r(rep, work, "CacheFlight", f"flight_conf_{tier}", cfg_text(flight, invariants=["TypeOK", "Delivers", "RightKey"]),
          FlightDriver)
    # leg T: long random histories (the property's "up to length 60") recorded from the real decorator and validated by a
    # trace module generated from Cache.tla: 5 keys, 3 receivers, limits 1..4, several expirations, clock jumps 1..3
    rnd = random.Random(seed * 31 + 7)
    ntr, length = (150, 60) if tier == "quick" else (1500, 60)
    traces = gen_traces(rep, lambda: gen_trace(rnd, length), ntr)
    leg_t_gen(rep, work, SPEC, f"trace_{tier}", traces,
              variables=["form", "limit", "expn", "now", "entries", "ninv", "invKey", "invAt", "invOut", "uses", "rid", "nrid",
                         "nren", "nops", "drained", "obs"],
              constants=dict(NKeys=8, NRecv=3, Forms='{"sync_fn", "sync_method", "async_fn", "async_method"}', Limits="1..4",
                             Expirations="{0, 2, 3, 5}", MaxT=100000, MaxOps=100000, Outs='{"val", "exc"}',
                             Steps="1..3", MaxRenew=100000, Nested="TRUE", Bug='"none"'),
              config_vars=["form", "limit", "expn"], actions=dict(Call=3, CallNested=3, CallSlow=3, Advance=1, Renew=1, Drain=0),
              invariants=["Capacity", "NoDuplicateKeys", "Sound"])
    rep.assumptions += [
        "key alphabet f(-1), f(-1.0), f(x=-1), f(x=-1.0), f(-2), f(), f(True), f(1) (==-equal but differently typed, positional vs keyword, "
        "unequal with equal hashes); method "
        "receivers are ==-equal, hash-equal, distinct instances",
        "exact integer virtual time; expiration=0 means 'never expires' in haiway and is modelled so",
        "async forms here are awaited one call at a time (concurrency is C13); the async form caches failed invocations, "
        "the sync form does not - modelled per form",
        "unhashable arguments are outside the stated key alphabet",
    ]
    # the decorator stacked with the others (Stack.tla): every layer acts on the layer below it
    from props.stack_common import stack_legs
    stack_legs(rep, work, tier, "cache")
    return rep.finish(exhaustive=True,
                      rule="all call/advance histories up to MaxOps over NKeys keys x receivers x outcome(value|raises) for "
                           "every form/limit/expiration; every edge incl. a Drain edge from every state replayed into the "
                           "real decorator")


def replay(rep, record):
    from harness.graph import parse_label
    if record.get("spec") == "Stack":
        from props.stack_common import replay_stack
        return replay_stack(record)
    if record.get("spec") == "CacheFlight":
        from props.c13 import replay as r13
        return r13(rep, record)
    d = factory(6, 3)()
    d.reset(record["init"])
    d.nkeys = record.get("nkeys", 3)
    print("  config:", {k: record["init"][k] for k in ("form", "limit", "expn")})
    try:
        for lab in record["path"]:
            name, args = parse_label(lab)
            print(f"  {lab} -> {d.apply(name, args)}")
    finally:
        d.close()
