"""C19 - context log lines go to the scope's logger tagged with an inherited trace id."""
import logging

from haiway import ctx

from harness.interp import World
import random

from harness.legs import cfg_text, gen_traces, leg_m, leg_mutant, leg_r, leg_t_gen

SPEC = "Logs"
MANIFEST = dict(
    text="Logs.tla models a forest of scopes each optionally given its own logger and/or trace id and a name from a "
         "family incl. the empty name and names containing %-formatting characters; loggers, trace ids and identifiers "
         "are named by the scope that introduced them. Every context log call (4 levels x {no args, matching positional args, a single "
         "mapping argument for %(name)s, literal % without args} x optional exception) is an action whose "
         "observation is the line that reached a handler (entering a scope is observed through a probe line logged right "
         "after; the library's own lifecycle lines are not part of the property and are ignored). TLC checks LoggerRule, TraceInherited and LineSane over all "
         "trees/positions within the bounds, in the creating task and a spawned task; every edge is replayed into the "
         "real library (and random programs of 4 tasks / 10 scopes are validated by a generated trace module) with "
         "capturing handlers on the supplied loggers and on the root logger. Also: scope objects made in one place and entered in another (Make / EnterMade), the empty string as trace id (either reading, nothing else), logging reconfigured around scope creation.",
    technique="TLA+ spec + TLC exhaustive model checking; edge-complete graph replay into the implementation with "
              "capturing log handlers",
    design="5/C19")
INVS = ["TypeOK", "LoggerRule", "TraceInherited", "LineSane"]
LEVELS = {"debug": logging.DEBUG, "info": logging.INFO, "warning": logging.WARNING, "error": logging.ERROR}
LEVELNAMES = {v: k for k, v in LEVELS.items()}


class _Cap(logging.Handler):
    def __init__(self, sink):
        super().__init__(level=logging.DEBUG)
        self.sink = sink

    def emit(self, record):
        try:
            msg = record.getMessage()
        except Exception as e:  # noqa: BLE001  - what a formatting handler would hit: the line is lost
            msg = "FORMAT-ERROR " + repr(e)
        self.sink.append((record.name, record.levelno, msg, record.exc_info is not None and record.exc_info[0] is not None))


class LogsDriver:
    def reset(self, init):
        self.w = World(types=(), probing=False)
        self.nt = len(init["alive"])
        self.nsid = 0
        self.sink = self.w.cap.records = _Sink()
        self.lines = []
        self.handler = _Cap(self.lines)
        self.w.root.addHandler(self.handler)
        self.own = {}
        self.labels = {}
        self.trace_of = {}  # trace string -> (given?, origin sid)
        self.ident_of = {}  # identifier string -> sid
        self.empty_trace = set()  # scopes opened with trace_id=""
        self.exc = ValueError("attached")
        self.w.start("1")

    def _label(self, kind, sid):
        return {"plain": f"s{sid}", "empty": "", "fmt": f"%s{sid}", "pct": f"100% s{sid}"}[kind]

    def _own_logger(self, sid):
        lg = logging.getLogger(f"own{sid}")
        lg.propagate = False
        lg.setLevel(logging.DEBUG)
        for h in list(lg.handlers):
            lg.removeHandler(h)
        lg.addHandler(self.handler)
        self.own[sid] = lg
        return lg

    def _levels(self, level):
        """logging is (re)configured at any time: while a scope is being created every logger is all but silent, right
        afterwards everything is enabled - what counts is the configuration at the moment a line is logged"""
        self.w.root.setLevel(level)
        for lg in self.own.values():
            lg.setLevel(level)

    def _line(self, expect_sid, expect_text_tail, new_scope=None):
        """canonicalise the single line the last action produced"""
        # only lines the driver itself caused count (its messages, or a line that failed to format); whatever else the
        # library chooses to log on its own (scope lifecycle lines) is not part of the property
        own = ("plain message", "value x and 3", "100% sure", "user ann", "value %s and %d")
        lines, self.lines[:] = [x for x in self.lines if x[2].endswith(own) or x[2].startswith("FORMAT-ERROR")], []
        if len(lines) != 1:
            return dict(res=f"{len(lines)} lines: {lines!r}")
        name, levelno, msg, has_exc = lines[0]
        out = dict(lvl=LEVELNAMES.get(levelno, str(levelno)), exc=bool(has_exc), res="ok")
        if msg.startswith("FORMAT-ERROR"):
            out.update(text="FORMAT-ERROR")
            body = None
        else:
            body = msg
        # logger identity
        if name.startswith("own") and name[3:].isdigit():
            out["lg"] = dict(kind="own", s=int(name[3:]))
        elif name == "root" and expect_sid == 0:
            out["lg"] = dict(kind="root", s=0)
        else:
            cands = [sid for sid, lab in self.labels.items() if (lab or "root") == name]
            out["lg"] = dict(kind="named", s=self._pick_named(cands, expect_sid)) if cands else dict(kind="named:" + name, s=0)
        if expect_sid == 0:
            out.update(tr=dict(given=False, s=0), label="none", ident=0)
            if body is not None:
                out["text"] = self._text(body)
            return out
        lab = self.labels[expect_sid]
        out["label"] = self.label_kind[expect_sid]
        if body is None:
            out.update(tr=self._tr_of_scope.get(expect_sid, dict(given=False, s=-1)), ident=expect_sid)
            return out
        # the tag: wherever and however the library renders it, the line must carry the trace id and a unique
        # identifier (32-hex tokens or the given id "T<n>%2F%s"), the scope name, and end with the message text
        import re
        text = next((t for t in ("plain message", "value x and 3", "100% sure", "user ann", "value %s and %d") if body.endswith(t)), None)
        if text is None:
            out.update(tr=dict(given=False, s=-1), ident=-1, text="UNPARSEABLE " + body[:80])
            return out
        head = body[: len(body) - len(text)]
        given = re.findall(r"(?<![0-9A-Za-z])T\d+%2F%s(?![0-9A-Za-z])", head)
        hexes = re.findall(r"(?<![0-9a-f])[0-9a-f]{32}(?![0-9a-f])", head)
        if lab and lab not in head:
            out.update(tr=dict(given=False, s=-1), ident=-1, text="NAME-MISSING " + body[:80])
            return out
        if given and len(hexes) >= 1:
            trace, ident = given[0], hexes[-1]
        elif len(hexes) >= 2:
            trace, ident = hexes[0], hexes[-1]
        elif len(hexes) == 1 and self._empty_ancestor(expect_sid):
            # the empty trace id, taken as an id like any other: it is the id of the nearest scope that was given it
            trace, ident = f"EMPTY{self._empty_ancestor(expect_sid)}", hexes[-1]
            self.trace_of.setdefault(trace, dict(given=True, s=self._empty_ancestor(expect_sid)))
        else:
            out.update(tr=dict(given=False, s=-1), ident=-1, text="UNTAGGED " + body[:80])
            return out
        if new_scope is not None:
            if trace not in self.trace_of:
                self.trace_of[trace] = dict(given=(trace == f"T{new_scope}%2F%s"), s=new_scope)
            self.ident_of.setdefault(ident, new_scope) if ident not in self.ident_of else None
            if self.ident_of.get(ident) != new_scope:
                self.ident_of[ident + "#dup"] = new_scope
        out["tr"] = dict(self.trace_of.get(trace, dict(given=False, s=-1)))
        out["ident"] = self.ident_of.get(ident, -1)
        self._tr_of_scope[expect_sid] = out["tr"]
        out["text"] = self._text(text)
        return out

    _tr_of_scope = {}
    _is_probe = False

    def _empty_ancestor(self, sid):
        while sid:
            if sid in self.empty_trace:
                return sid
            sid = self.parent.get(sid, 0)
        return 0

    def _pick_named(self, cands, expect_sid):
        # several scopes may share a label text only for the empty name (root logger): origin is then the outermost
        # scope of the expected chain; report the candidate on the expected scope's chain
        chain = []
        s = expect_sid
        while s:
            chain.append(s)
            s = self.parent.get(s, 0)
        for c in reversed(chain):
            if c in cands:
                return c
        return cands[0]

    def _text(self, t):
        return {"plain message": "noargs", "value x and 3": "args",
                "100% sure": "pct_noargs", "user ann": "mapping", "value %s and %d": "tmpl_noargs"}.get(t, "OTHER " + t[:60])

    def apply(self, name, args):
        w = self.w
        if name == "Open":
            t, labk, ownlog, owntrace = args
            self.nsid += 1
            sid = self.nsid
            self.label_kind[sid] = labk
            lab = self.labels[sid] = self._label(labk, sid)
            self.parent[sid] = self.cur.get(t, 0)
            self.stack.setdefault(t, []).append(sid)
            self.cur[t] = sid
            kw = {}
            if ownlog:
                kw["logger"] = self._own_logger(sid)
            if owntrace is True or owntrace == "own":
                kw["trace_id"] = f"T{sid}%2F%s"     # a caller's id is arbitrary text - here with %-sequences in it
            elif owntrace == "empty":
                kw["trace_id"] = ""                 # ... or the empty text
                self.empty_trace.add(sid)
            w.do(str(t), "tryu")     # a catch-all right outside the block (it survives a cancellation of the block)
            self._levels(logging.CRITICAL + 10)
            w.do(str(t), "xscope", sid % 2 == 0, sid, lab, kw)
            self._levels(logging.DEBUG)
            self.lines[:] = []
            w.do(str(t), "call", lambda: ctx.log_info("plain message"))   # probe through the scope just entered
            return self._fin(self._line(sid, "noargs", new_scope=sid), t)
        if name == "Make":
            # the scope object is made here (name, logger, trace id fixed now) and entered later, maybe by another task
            t, labk, ownlog, owntrace = args
            self.nsid += 1
            sid = self.made_sid = self.nsid
            self.label_kind[sid] = labk
            lab = self.labels[sid] = self._label(labk, sid)
            self.parent[sid] = self.cur.get(t, 0)
            kw = {}
            if ownlog:
                kw["logger"] = self._own_logger(sid)
            if owntrace == "own":
                kw["trace_id"] = f"T{sid}%2F%s"
            elif owntrace == "empty":
                kw["trace_id"] = ""
                self.empty_trace.add(sid)
            self._levels(logging.CRITICAL + 10)
            w.do(str(t), "prepare", "ascope" if sid % 2 == 0 else "sscope", sid, [], lab, kw)
            self._levels(logging.DEBUG)
            self.lines[:] = []
            return self._fin(dict(lg=dict(kind="none", s=0), lvl="none", tr=dict(given=False, s=0), label="none", ident=0,
                                  text="none", exc=False, res="ok"), t)
        if name == "EnterMade":
            t = args[0]
            sid = self.made_sid
            self.stack.setdefault(t, []).append(sid)
            self.cur[t] = sid
            w.do(str(t), "tryu")
            w.do(str(t), "enterprep")
            self.lines[:] = []
            w.do(str(t), "call", lambda: ctx.log_info("plain message"))
            return self._fin(self._line(sid, "noargs", new_scope=sid), t)
        if name == "Close":
            t = args[0]
            sid = self.stack[t].pop()
            self.cur[t] = self.parent_of_task_scope(t, sid)
            if len(args) > 1 and args[1] == "cancel":
                w.cancel(str(t))                    # cancelled inside the block, caught right outside it
            else:
                w.do(str(t), "leave", "return")     # the block ...
                w.do(str(t), "leave", "return")     # ... and the catch-all around it
            self.lines[:] = []
            return self._fin(dict(lg=dict(kind="none", s=0), lvl="none", tr=dict(given=False, s=0), label="none", ident=0,
                                  text="none", exc=False, res="ok"), t)
        if name == "Log":
            t, lvl, text, exc = args
            fn = {"debug": ctx.log_debug, "info": ctx.log_info, "warning": ctx.log_warning, "error": ctx.log_error}[lvl]
            msg, margs = {"noargs": ("plain message", ()), "args": ("value %s and %d", ("x", 3)),
                          "pct_noargs": ("100% sure", ()), "mapping": ("user %(name)s", ({"name": "ann"},)),
                          "tmpl_noargs": ("value %s and %d", ())}[text]
            raised = []

            def call():
                try:
                    if exc:
                        fn(msg, *margs, exception=self.exc)
                    else:
                        fn(msg, *margs)
                except BaseException as e:  # noqa: BLE001
                    raised.append(repr(e))

            w.do(str(t), "call", call)
            line = self._line(self.cur.get(t, 0), text)
            if raised:
                line["res"] = "raised " + raised[0]
            return self._fin(line, t)
        if name == "Start":
            t, u = args
            self.cur[u] = self.cur.get(t, 0)
            self.task_base[u] = self.cur.get(t, 0)
            w.do(str(t), "plainspawn", str(u))
            self.lines[:] = []
            return dict(lg=dict(kind="none", s=0), lvl="none", tr=dict(given=False, s=0), label="none", ident=0,
                        text="none", exc=False, res="ok")
        raise ValueError(name)

    def parent_of_task_scope(self, t, sid):
        st = self.stack[t]
        return st[-1] if st else self.task_base.get(t, 0)

    def _fin(self, line, t):
        st = self.w.status(str(t))
        if st.startswith("failed"):
            line["res"] = st
        return line

    def close(self):
        try:
            self.w.root.removeHandler(self.handler)
            for lg in self.own.values():
                lg.removeHandler(self.handler)
        finally:
            self.w.close()


class _Sink(list):
    """the World's own capture is not needed here"""

    def append(self, x):
        pass


def make():
    d = LogsDriver()
    d.label_kind, d.parent, d.cur, d.stack, d.task_base = {}, {}, {}, {}, {}
    d._tr_of_scope = {}
    return d


def gen_trace(rnd, ntasks=4, nscopes=10, nops=40):
    """a random program of up to 4 tasks and 10 scopes (nesting up to 5 deep; own loggers, own trace ids, all name kinds),
    log calls of every level / message form from every position, recorded from the real library"""
    d = make()
    d.reset(dict(alive=[0] * ntasks))
    tr = [dict(ev="Init", init={})]
    stack = {1: []}
    alive, born, nsid = [1], 1, 0
    made = None
    try:
        for _ in range(nops):
            t = rnd.choice(alive)
            ch = [("Log", None)] * 5
            if nsid < nscopes and len(stack[t]) < 5:
                ch += [("Open", None)] * 4
                if made is None:
                    ch += [("Make", None)]
            if made is not None and len(stack[t]) < 5:
                ch += [("EnterMade", None)] * 2
            if stack[t]:
                ch += [("Close", None)] * 2
            if born < ntasks:
                ch += [("Start", None)]
            name = rnd.choice(ch)[0]
            if name == "Open":
                args = [t, rnd.choice(["plain", "empty", "fmt", "pct"]), rnd.random() < 0.3, rnd.choice(["no"] * 5 + ["own"] * 3 + ["empty"] * 2)]
                nsid += 1
                stack[t].append(nsid)
            elif name == "Make":
                args = [t, rnd.choice(["plain", "empty", "fmt", "pct"]), rnd.random() < 0.3, rnd.choice(["no"] * 5 + ["own"] * 3 + ["empty"] * 2)]
                nsid += 1
                made = nsid
            elif name == "EnterMade":
                args = [t]
                stack[t].append(made)
                made = None
            elif name == "Close":
                args = [t, rnd.choice(["return", "return", "cancel"])]
                stack[t].pop()
            elif name == "Start":
                born += 1
                args = [t, born]
                stack[born] = []
                alive.append(born)
            else:
                lvl = rnd.choice(["debug", "info", "warning", "error"])
                args = [t, lvl, rnd.choice(["noargs", "args", "pct_noargs", "mapping", "tmpl_noargs", "args"]), lvl != "info" and rnd.random() < 0.3]
            o = d.apply(name, tuple(args))
            tr.append(dict(ev=name, args=args, obs=o))
    finally:
        d.close()
    return tr


TRACE_KW = dict(
    variables=["par", "phase", "label", "lg", "tr", "cur", "stack", "saved", "alive", "nops", "obs"],
    constants=dict(NTasks=4, N=10, MaxOps=100000, Labels='{"plain", "empty", "fmt", "pct"}',
                   Levels='{"debug", "info", "warning", "error"}', Bug='"none"', Prep="TRUE", OwnTraces='{"no", "own", "empty"}'),
    config_vars=[], actions=dict(Open=4, Make=4, EnterMade=1, Close=2, Log=4, Start=2),
    invariants=["LoggerRule", "TraceInherited", "LineSane"])


def run(rep, work, tier, seed):
    lv = ["debug", "info", "warning", "error"]
    if tier == "quick":
        mc = dict(NTasks=2, N=3, MaxOps=4, Labels=["plain", "empty", "fmt", "pct"], Levels=lv, OwnTraces=["no", "own"], Prep=False, Bug="none")
        conf = dict(NTasks=2, N=3, MaxOps=3, Labels=["plain", "empty", "fmt"], Levels=lv, OwnTraces=["no", "own"], Prep=False, Bug="none")
    else:
        mc = dict(NTasks=2, N=4, MaxOps=5, Labels=["plain", "empty", "fmt", "pct"], Levels=["debug", "warning"], OwnTraces=["no", "own"], Prep=False, Bug="none")
        conf = dict(NTasks=2, N=3, MaxOps=4, Labels=["plain", "empty", "fmt", "pct"], Levels=["info", "warning", "error"], OwnTraces=["no", "own"], Prep=False, Bug="none")
    rep.extra["constants"] = dict(model=mc, conformance=conf)
    leg_m(rep, work, SPEC, f"mc_{tier}", cfg_text(mc, invariants=INVS), expect_actions=["Open", "Close", "Log", "Start"],
          timeout=3000)
    if tier == "thorough":
        small = dict(NTasks=1, N=3, MaxOps=4, Labels=["plain", "fmt"], Levels=["warning"], OwnTraces=["no", "own"], Prep=False)
        for bug, inv in (("fresh_trace", ["TraceInherited"]), ("outermost_logger", ["LoggerRule"]),
                         ("lost_on_format", ["LineSane"])):
            leg_mutant(rep, work, SPEC, f"mutant_{bug}", cfg_text(dict(small, Bug=bug), invariants=INVS), inv)
    leg_r(rep, work, SPEC, f"conf_{tier}", cfg_text(conf, invariants=INVS), make, world=True)
    # a task that outlives the scope it inherited and opens a scope afterwards (4-5 operations), on a narrow alphabet
    late = dict(NTasks=2, N=3, MaxOps=4 if tier == "quick" else 5, Labels=["plain"], Levels=["warning"], OwnTraces=["no", "own"], Prep=False, Bug="none")
    leg_r(rep, work, SPEC, f"conf_late_{tier}", cfg_text(late, invariants=INVS), make, world=True)
    # scope objects made in one place and entered in another: name, logger and trace id are those of the place of making,
    # lines logged inside go there whichever task entered it
    madec = dict(NTasks=2, N=3, MaxOps=4, Labels=["plain"], Levels=["warning"], OwnTraces=["no", "own"], Prep=True, Bug="none")
    leg_m(rep, work, SPEC, f"made_mc_{tier}", cfg_text(madec, invariants=INVS), expect_actions=["Make", "EnterMade", "Log"])
    leg_r(rep, work, SPEC, f"made_conf_{tier}", cfg_text(madec, invariants=INVS), make, world=True)
    # a scope given the EMPTY string as its trace id: read as "none given" or as an id like any other, nothing else (the
    # specification offers both, so this graph has successor sets and is walked by one process - kept small)
    empty = dict(NTasks=2, N=3, MaxOps=3, Labels=["plain"], Levels=["warning"], Bug="none", Prep=False, OwnTraces=["no", "own", "empty"])
    leg_r(rep, work, SPEC, f"conf_empty_{tier}", cfg_text(empty, invariants=INVS), make, world=True)
    # leg T: random programs (4 tasks, 10 scopes, nesting up to 5) validated by a trace module generated from Logs.tla
    rnd = random.Random(seed * 47 + 9)
    traces = gen_traces(rep, lambda: gen_trace(rnd), 100 if tier == "quick" else 1500)
    leg_t_gen(rep, work, SPEC, f"trace_{tier}", traces, **TRACE_KW)
    rep.assumptions += [
        "a line counts as emitted when a handler attached to the expected logger receives a record whose message "
        "formats without error (record.getMessage()), as any formatting handler would require",
        "scope names: 's<n>', '' (empty), '%s<n>', '100% s<n>'; messages: no args, matching %-args, literal % without args",
    ]
    return rep.finish(exhaustive=True,
                      rule="all scope trees up to N nodes with optional own logger / own trace id / name kind per node, "
                           "every log call form at every position, in the creating task and a spawned task, within MaxOps")


def replay(rep, record):
    from harness.graph import parse_label
    d = make()
    d.reset(record["init"])
    try:
        for lab in record["path"]:
            name, args = parse_label(lab)
            print(f"  {lab} -> {d.apply(name, args)}")
    finally:
        d.close()
