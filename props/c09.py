"""C09 - scope completion fires exactly once, after the whole subtree has been left."""
import random

from harness.legs import cfg_text, gen_traces, leg_m, leg_mutant, leg_r, leg_t_gen
from props.metrics_common import MetricsDriver, gen_trace, trace_kw

SPEC = "Metrics"
MANIFEST = dict(
    text="(Also: scope objects MADE in one place - registered there - and entered later by a task that inherited nothing "
         "from the maker, with a forced garbage collection in between: Make / EnterMade.) "
         "Metrics.tla models the dynamically created scope forest (registration at creation under the creating task's "
         "current scope unless it already completed), finishing, the upward completion closure and the separately "
         "scheduled completion callbacks, with children in the parent's task, in tasks spawned into the scope and in "
         "plain tasks that outlive it. TLC checks CbAtMostOnce, CbAfterSubtree, CbSeesCompleted, ExitNeverFails, "
         "CompletionIffSubtreeLeft, the action property CompletedStable (completed stays completed, measured time "
         "frozen) and liveness EventuallyCalled over every linearisation of open/close/start/end/tick within the "
         "bounds; every edge is replayed into real scopes with sync and async completion callbacks that log "
         "(virtual time, is_completed, time), and a Drain edge from every state unwinds all tasks and re-reads every "
         "completed scope's metrics object.",
    technique="TLA+ spec + TLC exhaustive model checking incl. liveness; edge-complete graph replay into the "
              "implementation through a gated interpreter in virtual time",
    design="5/C09")
INVS = ["TypeOK", "CbAtMostOnce", "CbAfterSubtree", "CbAfterMembers", "CbSeesCompleted", "ExitNeverFails", "CompletionIffSubtreeLeft"]
PROPS = ["CompletedStable"]
INTERNAL = ["RunCb", "Finish"]


def run(rep, work, tier, seed):
    if tier == "quick":
        mc = dict(NTasks=3, N=4, MaxOps=7, MaxRec=0, MaxT=1, MTypes=["Cat"], Kinds=["s", "a"], Prep=False, Threads=False, Bug="none")
        conf = dict(NTasks=2, N=3, MaxOps=6, MaxRec=0, MaxT=1, MTypes=["Cat"], Kinds=["s", "a"], Prep=False, Threads=False, Bug="none")
    else:
        mc = dict(NTasks=3, N=5, MaxOps=8, MaxRec=0, MaxT=1, MTypes=["Cat"], Kinds=["s", "a"], Prep=False, Threads=False, Bug="none")
        conf = dict(NTasks=3, N=4, MaxOps=7, MaxRec=0, MaxT=1, MTypes=["Cat"], Kinds=["s", "a"], Prep=False, Threads=False, Bug="none")
    rep.extra["constants"] = dict(model=mc, conformance=conf)
    leg_m(rep, work, SPEC, f"mc_{tier}",
          cfg_text(mc, spec="Spec", invariants=INVS, properties=PROPS + ["EventuallyCalled"]),
          expect_actions=["Open", "Close", "Finish", "RunCb", "Start", "End", "Tick", "Drain"], timeout=3000)
    if tier == "thorough":
        small = dict(NTasks=2, N=3, MaxOps=6, MaxRec=0, MaxT=1, MTypes=["Cat"], Kinds=["s", "a"], Prep=False, Threads=False)
        leg_mutant(rep, work, SPEC, "mutant_late_child", cfg_text(dict(small, Bug="late_child"), invariants=INVS),
                   ["CbAfterSubtree", "ExitNeverFails", "CbAtMostOnce", "CompletionIffSubtreeLeft"])
        leg_mutant(rep, work, SPEC, "mutant_metrics_before_group",
                   cfg_text(dict(small, Bug="metrics_before_group"), invariants=INVS), ["CbAfterMembers"])
        leg_mutant(rep, work, SPEC, "mutant_no_parent_notify",
                   cfg_text(dict(small, Bug="no_parent_notify"), invariants=INVS), ["CompletionIffSubtreeLeft"])
    leg_r(rep, work, SPEC, f"conf_{tier}", cfg_text(conf, invariants=INVS), lambda: MetricsDriver(["Cat"]),
          internal=INTERNAL, world=True)
    # three tasks sharing one inherited scope (children in plain tasks that outlive it, opened while an earlier
    # child is still open): needs 7-8 operations, explored on sync scopes only to keep the graph small
    wide = dict(NTasks=3, N=3, MaxOps=7 if tier == "quick" else 8, MaxRec=0, MaxT=0, MTypes=["Cat"], Kinds=["s"], Prep=False, Threads=False, Bug="none")
    leg_r(rep, work, SPEC, f"conf_wide_{tier}", cfg_text(wide, invariants=INVS), lambda: MetricsDriver(["Cat"]),
          internal=INTERNAL, world=True)
    # scope objects made in one place and entered in another - by a task that inherited nothing from the maker - with a
    # garbage collection in between: the scope the object is registered under completes exactly when it has been left too
    madec = dict(NTasks=2, N=3, MaxOps=6 if tier == "quick" else 7, MaxRec=0, MaxT=0, MTypes=["Cat"],
                 Kinds=["s", "a"], Prep=True, Threads=False, Bug="none")
    leg_m(rep, work, SPEC, f"made_mc_{tier}", cfg_text(madec, spec="Spec", invariants=INVS, properties=PROPS + ["EventuallyCalled"]),
          expect_actions=["Make", "EnterMade", "Close", "RunCb"], timeout=3000)
    leg_r(rep, work, SPEC, f"made_conf_{tier}", cfg_text(madec, invariants=INVS), lambda: MetricsDriver(["Cat"]),
          internal=INTERNAL, world=True)
    # a task spawned into the scope spawns another one while the scope's owner is already waiting for its tasks: the scope
    # waits for that one too, and completes after it
    latem = dict(NTasks=3, N=2, MaxOps=6, MaxRec=0, MaxT=0, MTypes=["Cat"], Kinds=["a"], Prep=False, Threads=False, Bug="none")
    leg_r(rep, work, SPEC, f"late_member_conf_{tier}", cfg_text(latem, invariants=INVS), lambda: MetricsDriver(["Cat"]),
          internal=INTERNAL, world=True)
    # code running off the event loop (a worker thread with a copy of the task's context) tries to open a scope: refused or
    # not, the scopes of the task complete as they would have
    thr = dict(NTasks=2, N=2, MaxOps=5, MaxRec=0, MaxT=0, MTypes=["Cat"], Kinds=["s", "a"], Prep=False, Threads=True, Bug="none")
    leg_r(rep, work, SPEC, f"threads_conf_{tier}", cfg_text(thr, invariants=INVS), lambda: MetricsDriver(["Cat"]),
          internal=INTERNAL, world=True)
    # leg T: random programs over 4 tasks / 8 scopes recorded from the real library, validated by a trace module
    # generated from Metrics.tla (callbacks run as silent internal steps between the logged events)
    rnd = random.Random(seed * 19 + 5)
    traces = gen_traces(rep, lambda: gen_trace(rnd, ["Cat"], records=False), 120 if tier == "quick" else 1500)
    leg_t_gen(rep, work, SPEC, f"trace_{tier}", traces, **trace_kw(["Cat"]))
    # ... and one scope with hundreds of scopes nested under it over its lifetime
    from props.metrics_common import wide_trace
    nch = 258 if tier == "quick" else 400
    from harness.legs import OPT
    if not OPT:
        leg_t_gen(rep, work, SPEC, f"trace_wide_{tier}", gen_traces(rep, lambda: wide_trace(nch), 1),
                  **trace_kw(["Cat"], ntasks=1, n=nch + 1))
    rep.assumptions += [
        "a scope object that is made and never entered keeps the completion of the scope it is registered under pending "
        "for ever (modelled as such - it has not been left); scopes made ahead carry no completion callback",
        "ScopeMetrics.__del__ is outside the model; a garbage collection is forced before a made scope is entered",
        "sync callbacks for odd scope ids, async callbacks (run_coroutine_threadsafe on the same loop) for even ones; "
        "every third callback raises after it has looked (that must not fail an exit or stop enclosing completions)",
    ]
    return rep.finish(exhaustive=True,
                      rule="every linearisation of open (sync/async scope) / close / start task (spawn|plain) / end / tick "
                           "for up to N scopes and NTasks tasks within MaxOps, incl. scopes opened under an already "
                           "completed inherited scope; every edge replayed, every state drained")


def replay(rep, record):
    from harness.graph import parse_label
    d = MetricsDriver(["Cat"])
    d.reset(record["init"])
    try:
        for lab in record["path"]:
            name, args = parse_label(lab)
            print(f"  {lab} -> {d.apply(name, args)}")
    finally:
        d.close()
