"""C13 - async cache shares one in-flight call; cancelling a waiter harms no one else."""
import asyncio

import random

from haiway import State, ctx

from harness.decoys import decoyed
from harness.legs import cfg_text, gen_traces, leg_m, leg_mutant, leg_r, leg_t_gen
from harness.vloop import VClock, VLoop

SPEC = "CacheFlight"
MANIFEST = dict(
    text="CacheFlight.tla models the async cache with concurrent callers: the LRU table holds invocations; callers "
         "attach to the cached one or start a new one and wait behind a shield. TLC checks SingleFlight (action "
         "property), NeverCancelsInvocation, Delivers, OnlyTheCancelledSeeCancel, RightKey, OneEntryPerKey and the "
         "liveness property EventuallyDelivered over all interleavings of begin / finish / cancel-caller / advance / "
         "loop-run, including cancellation between the end of the invocation and the waiter's wake-up and expiry or "
         "eviction of the entry in flight; every edge is replayed into the real decorator with gated invocations "
         "that record whether they ever saw a CancelledError. Callers also arrive in the gap between an invocation's end and the scheduled wake-ups of its waiters.",
    technique="TLA+ spec + TLC exhaustive model checking incl. liveness; edge-complete graph replay into the "
              "implementation on a deterministic virtual-time loop",
    design="5/C13")
INVS = ["TypeOK", "OneEntryPerKey", "NeverCancelsInvocation", "Delivers", "RightKey"]
PROPS = ["SingleFlight", "OnlyTheCancelledSeeCancel"]
T0 = 1000.0
# the call without arguments (an empty key is a key), ==-equal arguments of different types, unequal ones with equal hashes
ARGS = {1: ((), {}), 2: ((-1,), {}), 3: ((-1.0,), {}), 4: ((-2,), {})}


class Val:
    """what the cached function returns: tied to its invocation - and falsy (a cached falsy result is still a result)"""

    def __init__(self, n):
        self.n = n

    def __bool__(self):
        return False


class Err(Exception):
    def __init__(self, n):
        super().__init__(f"invocation {n}")
        self.n = n

    def __bool__(self):
        return False

    def __eq__(self, other):
        return isinstance(other, BaseException)     # exceptions that compare equal to each other (identity is what counts)

    def __hash__(self):
        return 19


class _Note(State):
    v: int


class FlightDriver:
    def __init__(self, method=False):
        self.loop = None
        self.clock = None
        self.method = method      # the cached coroutine function is a method of a holder instance

    def reset(self, init):
        from haiway import cache, ctx
        limit, expn = init["limit"], init["expn"]
        self.nc = len(init["cl"])
        self.gap = False
        self.loop = loop = VLoop(start=T0)
        self.clock = VClock(loop)
        self.clock.__enter__()
        self.now = 0
        import logging
        logging.getLogger().addHandler(logging.NullHandler())     # (what the library logs about refused records is not judged here)
        logging.getLogger().setLevel(logging.CRITICAL + 1)
        self.invs = []  # dict(key, st, canc, gate, obj)
        self.cl = {c: dict(pc="idle", key=0, inv=0, out="none", got=0) for c in range(1, self.nc + 1)}
        self.tasks = {}
        drv = self

        async def body(*args, **kwargs):
            rec = dict(args=args, st="running", canc=False, gate=loop.create_future(), obj=None,
                       task=asyncio.current_task())
            drv.invs.append(rec)
            n = len(drv.invs)
            try:
                o = await rec["gate"]
            except asyncio.CancelledError:
                rec["canc"] = True
                rec["st"] = "cancelled"
                raise
            rec["st"] = o
            # the function uses the context it runs in - a copy of the FIRST caller's, whose scope may be gone by now:
            # recording there never raises
            ctx.record(_Note(v=n))
            if o == "val":
                rec["obj"] = Val(n)
                return rec["obj"]
            rec["obj"] = Err(n)
            raise rec["obj"]

        # (with the default parameters the decorator is used bare: `@cache`)
        deco = cache if limit == 1 and not expn else cache(limit=limit, expiration=float(expn) if expn else None)
        if self.method:
            class Holder:
                @deco
                @decoyed
                async def m(self_, *args, **kwargs):
                    return await body(*args, **kwargs)

            self.holder = Holder()
            self.fn = self.holder.m
        else:
            @deco
            @decoyed
            async def fn(*args, **kwargs):
                return await body(*args, **kwargs)

            self.fn = fn

    async def _caller(self, c, key):
        rec = self.cl[c]
        args, kwargs = ARGS[key]
        try:
            # every caller calls from inside its own scope (as application code does): the shared invocation belongs to
            # no caller's scope - a caller that is cancelled, or whose scope ends, takes nothing with it
            async with ctx.scope(f"caller{c}"):
                got = ("val", await self.fn(*args, **kwargs))
        except asyncio.CancelledError:
            rec.update(pc="done", out="cancelled", got=0)
            return
        except BaseException as e:  # noqa: BLE001
            got = ("exc", e)
        n = getattr(got[1], "n", None)
        if n is None or not (1 <= n <= len(self.invs)) or self.invs[n - 1]["obj"] is not got[1]:
            rec.update(pc="done", out=f"foreign {got!r}", got=-1)
        else:
            rec.update(pc="done", out=got[0], got=n)

    def _key_of(self, rec):
        a = rec["args"]
        for k, (args, kw) in ARGS.items():
            if len(a) == len(args) and all(type(x) is type(y) and x == y for x, y in zip(a, args)):
                return k
        return -1

    def _obs(self):
        return dict(cl=tuple(dict(self.cl[c]) for c in sorted(self.cl)),
                    invs=tuple(dict(key=self._key_of(r), st=r["st"], canc=r["canc"]) for r in self.invs))

    def apply(self, name, args):
        if name == "Begin":
            c, k = args
            before = len(self.invs)
            self.cl[c] = dict(pc="waiting", key=k, inv=0, out="none", got=0)
            old = set(asyncio.all_tasks(self.loop))
            self.tasks[c] = self.loop.create_task(self._caller(c, k))
            if getattr(self, "gap", False):
                # wake-ups of earlier callers are scheduled and have not run: only the newcomer (and what it starts) runs
                self.loop.quiesce_where(lambda h: isinstance(getattr(h._callback, "__self__", None), asyncio.Task)
                                        and h._callback.__self__ not in old)
            else:
                self.loop.quiesce()
            rec = self.cl[c]
            # which invocation is this caller attached to?  a new one if one was started, else the one whose
            # outcome it will get: known at once for finished invocations, inferred at delivery otherwise
            if len(self.invs) > before:
                rec["inv"] = len(self.invs)
            elif rec["pc"] == "done":
                rec["inv"] = rec["got"]
            else:
                rec["inv"] = self._pending_guess(c, k)
        elif name == "Finish":
            i, o = args
            self.invs[i - 1]["gate"].set_result(o)
            # exactly the invocation's own task step: it is done, waiters not yet woken
            task = self.invs[i - 1]["task"]
            self.loop.policy = lambda live: next(
                (j for j, h in enumerate(live) if getattr(h._callback, "__self__", None) is task), 0)
            try:
                self.loop.step()
            finally:
                self.loop.policy = None
            self.invs[i - 1]["st"] = o
            self.gap = self.gap or any(r["pc"] == "waiting" and r["inv"] == i for r in self.cl.values())
        elif name == "CancelCaller":
            self.tasks[args[0]].cancel()
            self.gap = True
        elif name == "Run":
            self.loop.quiesce()
            self.gap = False
        elif name == "Advance":
            self.now += 1
            self.loop.advance(T0 + self.now)
        else:
            raise ValueError(name)
        # attachment of waiting callers becomes certain when they are delivered
        for c, rec in self.cl.items():
            if rec["pc"] == "done" and rec["got"] > 0:
                rec["inv"] = rec["got"]
        return self._obs()

    def _pending_guess(self, c, k):
        """a caller that neither started an invocation nor finished is attached to a running invocation of its
        key; when several are running (an evicted one still in flight) it is the most recent one"""
        run = [i + 1 for i, r in enumerate(self.invs) if r["st"] == "running" and self._key_of(r) == k]
        return run[-1] if run else 0

    def close(self):
        try:
            if self.loop is not None:
                for r in self.invs:
                    if not r["gate"].done():
                        r["gate"].cancel()
                self.loop.shutdown()
        finally:
            if self.clock is not None:
                self.clock.__exit__(None, None, None)


def gen_trace(rnd, nops=40):
    """random interleaving of 4 callers over 3 keys: begin / finish / cancel a waiting caller / run the loop / advance the
    clock, recorded from the real async cache"""
    limit, expn = rnd.choice([1, 2, 3]), rnd.choice([0, 2, 3])
    d = FlightDriver(method=rnd.random() < 0.5)      # a cached function or a cached method
    d.reset(dict(limit=limit, expn=expn, cl=[0] * 4))
    tr = [dict(ev="Init", init=dict(limit=limit, expn=expn))]
    rdy, cpend = set(), set()
    try:
        for _ in range(nops):
            waiting = [c for c, r in d.cl.items() if r["pc"] == "waiting"]
            running = [i + 1 for i, r in enumerate(d.invs) if r["st"] == "running"]
            ch = []
            if not rdy:
                ch += [("Begin", [c, rnd.randint(1, 3)]) for c in d.cl if d.cl[c]["pc"] != "waiting"] * 2
                ch += [("Advance", [])]
            else:
                ch += [("Run", [])] * 3
                ch += [("Begin", [c, rnd.randint(1, 3)]) for c in d.cl if d.cl[c]["pc"] != "waiting"]   # a newcomer in the gap
            ch += [("Finish", [i, rnd.choice(["val", "val", "exc"])]) for i in running]
            ch += [("CancelCaller", [c]) for c in waiting if c not in cpend]
            if not ch:
                break
            name, args = rnd.choice(ch)
            if name == "Finish":
                rdy |= {c for c in waiting if d.cl[c]["inv"] == args[0]}
            elif name == "CancelCaller":
                rdy.add(args[0])
                cpend.add(args[0])
            elif name == "Run":
                cpend -= rdy
                rdy = set()
            o = d.apply(name, tuple(args))
            tr.append(dict(ev=name, args=args, obs=dict(cl=[dict(x) for x in o["cl"]], invs=[dict(x) for x in o["invs"]])))
    finally:
        d.close()
    return tr


def run(rep, work, tier, seed):
    if tier == "quick":
        mc = dict(NCallers=3, NKeys=2, Limits=[1, 2], Expirations=[0, 2], MaxT=3, MaxOps=6, Bug="none")
        conf = dict(NCallers=3, NKeys=2, Limits=[1, 2], Expirations=[0, 2], MaxT=3, MaxOps=5, Bug="none")
    else:
        mc = dict(NCallers=4, NKeys=2, Limits=[1, 2], Expirations=[0, 2], MaxT=3, MaxOps=7, Bug="none")
        conf = dict(NCallers=3, NKeys=2, Limits=[1, 2], Expirations=[0, 2], MaxT=3, MaxOps=6, Bug="none")
    rep.extra["constants"] = dict(model=mc, conformance=conf)
    leg_m(rep, work, SPEC, f"mc_{tier}",
          cfg_text(mc, spec="Spec", invariants=INVS, properties=PROPS + ["EventuallyDelivered"]),
          expect_actions=["Begin", "Finish", "CancelCaller", "Run", "Advance"], timeout=3000)
    if tier == "thorough":
        leg_mutant(rep, work, SPEC, "mutant_cancel_propagates",
                   cfg_text(dict(NCallers=2, NKeys=1, Limits=[1], Expirations=[0], MaxT=1, MaxOps=5,
                                 Bug="cancel_propagates"), invariants=INVS),
                   ["NeverCancelsInvocation", "Delivers"])
    leg_r(rep, work, SPEC, f"conf_{tier}", cfg_text(conf, invariants=INVS), FlightDriver)
    # the same for a cached async METHOD (its own code path in the library), on a smaller configuration in the quick tier
    mconf = dict(conf, NCallers=2) if tier == "quick" else conf
    leg_r(rep, work, SPEC, f"conf_method_{tier}", cfg_text(mconf, invariants=INVS), lambda: FlightDriver(method=True))
    # leg T: longer random interleavings (4 callers, 3 keys, ~40 operations) validated by a trace module generated from
    # CacheFlight.tla
    rnd = random.Random(seed * 23 + 11)
    traces = gen_traces(rep, lambda: gen_trace(rnd), 150 if tier == "quick" else 2000)
    leg_t_gen(rep, work, SPEC, f"trace_{tier}", traces,
              variables=["limit", "expn", "now", "entries", "invs", "cl", "cpend", "rdy", "nops", "obs"],
              constants=dict(NCallers=4, NKeys=3, Limits="1..3", Expirations="{0, 2, 3}", MaxT=100000, MaxOps=100000,
                             Bug='"none"'),
              config_vars=["limit", "expn"], actions=dict(Begin=2, Finish=2, CancelCaller=1, Run=0, Advance=0),
              invariants=["OneEntryPerKey", "NeverCancelsInvocation", "Delivers", "RightKey"])
    rep.assumptions += [
        "the wrapped coroutine is a gated double that records whether it ever saw CancelledError",
        "which running invocation a still-waiting caller is attached to is inferred (most recent running invocation of "
        "its key) and confirmed by the identity of the object it finally receives",
        "CPython 3.12 asyncio.shield / Task.cancel semantics",
    ]
    return rep.finish(exhaustive=True,
                      rule="all interleavings of begin(caller,key) / finish(invocation, value|exception) / cancel caller / "
                           "advance clock / run loop within MaxOps for every limit and expiration; every edge replayed "
                           "into the real async cache")


def replay(rep, record):
    from harness.graph import parse_label
    d = FlightDriver()
    d.reset(record["init"])
    print("  config:", {k: record["init"][k] for k in ("limit", "expn")})
    try:
        for lab in record["path"]:
            name, args = parse_label(lab)
            print(f"  {lab} -> {d.apply(name, args)}")
    finally:
        d.close()
