"""C07 - cancellation is never swallowed by scopes; the cancellation check reports it."""
import random

from harness.legs import cfg_text, gen_traces, leg_m, leg_mutant, leg_r, leg_t_gen
from props.scopelife_common import ScopeLifeDriver
from props.scopetasks_common import ScopeTasksDriver
from props.scopetasks_common import replay as _replay_tasks

SPEC = "ScopeTasks"
MANIFEST = dict(
    text="ScopeTasks.tla with Cancel(t) enabled for every task at its gate (inside any nesting of scopes) and while it "
         "waits for members at scope exit, and CtxCancel (ctx.cancel() followed by ctx.check_cancellation() before the "
         "next suspension). TLC checks NotSwallowed (a task that was asked to cancel ends cancelled), CancelCascades "
         "(so does everything spawned into the scopes it had open) and CheckAgrees (the check raises after a request "
         "and not otherwise; after an internal TaskGroup cancel absorbed by the stdlib either answer is accepted). "
         "Cancellation at the suspension points inside __aenter__/__aexit__ (entering disposables, rollback, "
         "exiting disposables, waiting for members) is ScopeLife.tla's CancelNotLost / CancelAbortsMembers, model-"
         "checked and replayed by this check as well. Every edge is replayed into real tasks; the victim's final "
         "Task.cancelled(), the members' states and the answer of ctx.check_cancellation() are compared. Also: cancellation in the wake-up window of one scope (ScopeLife.tla: the last awaited thing completes and the task is cancelled before it runs again - ReleaseEnterLate / ReleaseExitLate / ChildEndLate), replayed by stepping the loop handle by handle; half of the CtxCancel steps run a handled nested failure between the request and the check. Also (constant Turn): one leaf member may answer its cancellation with an exception of its own - cancelled, it fails - and its owner's own cancellation, delivered at a gate or while waiting for that member, still comes out.",
    technique="TLA+ spec + TLC exhaustive model checking of cancellation placements; edge-complete graph replay into the "
              "implementation through a gated interpreter",
    design="5/C07")
INVS = ["TypeOK", "NoOrphans", "NoIdleWait", "NotSwallowed", "NoEscape"]
PROPS = ["CancelCascades", "CheckAgrees"]


def replay(rep, record):
    if record.get("spec") == "ScopeLife":
        from props.scopelife_common import replay as r
        return r(rep, record)
    return _replay_tasks(rep, record)


def run(rep, work, tier, seed):
    if tier == "quick":
        mc = dict(NTasks=3, MaxDepth=3, MaxScopes=4, MaxOps=8, Bug="none", Turn=False)
        conf = dict(NTasks=3, MaxDepth=3, MaxScopes=3, MaxOps=5, Bug="none", Turn=False)
    else:
        mc = dict(NTasks=4, MaxDepth=3, MaxScopes=4, MaxOps=8, Bug="none", Turn=False)
        conf = dict(NTasks=3, MaxDepth=3, MaxScopes=4, MaxOps=6, Bug="none", Turn=False)
    rep.extra["constants"] = dict(model=mc, conformance=conf)
    leg_m(rep, work, SPEC, f"mc_{tier}", cfg_text(mc, spec="Spec", invariants=INVS, properties=PROPS),
          expect_actions=["Cancel", "CtxCancel", "Check", "Leave", "Fail"], timeout=3000)
    if tier == "thorough":
        small = dict(NTasks=3, MaxDepth=2, MaxScopes=2, MaxOps=5, Turn=False)
        leg_mutant(rep, work, SPEC, "mutant_swallow_wait_cancel",
                   cfg_text(dict(small, Bug="swallow_wait_cancel"), invariants=INVS), ["NotSwallowed"])
        leg_mutant(rep, work, SPEC, "mutant_check_never",
                   cfg_text(dict(small, Bug="check_never"), spec="Spec", invariants=INVS, properties=PROPS), ["CheckAgrees"])
    leg_r(rep, work, SPEC, f"conf_{tier}", cfg_text(conf, invariants=INVS), ScopeTasksDriver, world=True)
    # a member that answers its cancellation with an exception of its own (SetTurn): the owner's cancellation still counts
    turn = dict(NTasks=3, MaxDepth=2, MaxScopes=2, MaxOps=6 if tier == "quick" else 7, Bug="none", Turn=True)
    leg_m(rep, work, SPEC, f"turn_mc_{tier}", cfg_text(turn, spec="Spec", invariants=INVS, properties=PROPS), expect_actions=["SetTurn"],
          timeout=3000)
    leg_r(rep, work, SPEC, f"turn_conf_{tier}", cfg_text(turn, invariants=INVS), ScopeTasksDriver, world=True)
    # cancellation at the suspension points INSIDE __aenter__ / __aexit__ (disposables, rollback, exit wait)
    life = dict(ND=2, NC=1, Behaviours=["ok", "fail", "susp"], Bug="none") if tier == "quick" else \
        dict(ND=2, NC=2, Behaviours=["ok", "fail", "susp"], Bug="none")
    life_invs = ["TypeOK", "CancelNotLost", "CancelAbortsMembers", "NoWaitAfterFailure", "Restored"]
    leg_m(rep, work, "ScopeLife", f"life_mc_{tier}", cfg_text(life, invariants=life_invs), expect_actions=["Cancel"])
    leg_r(rep, work, "ScopeLife", f"life_conf_{tier}", cfg_text(life, invariants=life_invs), ScopeLifeDriver, world=True)
    # leg T: random programs of 5 tasks (~30 operations) recorded from the real library, validated by a trace module
    # generated from ScopeTasks.tla (existential acceptance: the spec is nondeterministic where the stdlib is)
    from props.scopetasks_common import TRACE_KW, gen_trace
    rnd = random.Random(seed * 29 + 1)
    traces = gen_traces(rep, lambda: gen_trace(rnd), 150 if tier == "quick" else 2000)
    leg_t_gen(rep, work, SPEC, f"trace_{tier}", traces, **TRACE_KW)
    rep.assumptions += [
        "user code does not catch the cancellation (the property's own proviso); tasks obey cancellation at once",
        "an external task.cancel() on a task parked at a gate is delivered at once, so ctx.check_cancellation() can only "
        "observe a pending request between ctx.cancel() and the next suspension - that is what CtxCancel exercises",
        "after asyncio.TaskGroup (CPython 3.12) absorbed its own parent-cancel while the owner was waiting, "
        "Task.cancelling() stays > 0: the check may answer either way there",
    ]
    return rep.finish(exhaustive=True,
                      rule="a cancellation injected at every gate / waiting state of every task of every program within the "
                           "bounds, ctx.cancel()+check and plain check at every gate; every edge replayed")
