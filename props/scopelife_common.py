"""Driver shared by C02 / C08 (ScopeLife.tla): one real async scope with disposable doubles, spawned tasks,
faults and cancellation, inside an outer scope and a catch-all so that the task survives to be probed."""
import re

from haiway import ctx
from haiway.context.disposables import Disposables

from harness.interp import Disp, World


def canon(tag):
    """world.classify() tag -> the specification's name for the exception"""
    if tag in ("none", "return", "C"):
        return tag
    if tag.startswith("body:"):
        return "E"
    if tag.startswith("bodybase:"):
        return "BaseE"
    m = re.fullmatch(r"(enter|exit):d(\d+)", tag)
    if m:
        return f"{m.group(1)}:{m.group(2)}"
    m = re.fullmatch(r"group\((.*)\)", tag)
    if m:
        parts = [canon(p) for p in m.group(1).split(",")]
        kinds = {p.split(":")[0] for p in parts}
        if len(kinds) == 1 and kinds <= {"enter", "exit"}:
            return kinds.pop() + ":" + "+".join(sorted(p.split(":")[1] for p in parts))
        return "group(" + ",".join(parts) + ")"
    return tag


class ScopeLifeDriver:
    def reset(self, init):
        self.w = w = World(types=("A", "B"))
        cfg = init["cfg"]
        self.nd = len(cfg)
        self.nc = len(init["x"]["ch"])
        self.disps = []
        for i in range(1, self.nd + 1):
            c = cfg[i - 1] if isinstance(cfg, (list, tuple)) else cfg[i]
            en = {"ok": "ok", "fail": "fail", "susp": "suspend"}[c["en"]]
            ex = {"ok": "ok", "fail": "fail", "susp": "suspend"}[c["ex"]]
            # every disposable yields the state B = its index - except the middle one of three, which yields nothing
            # (returns None): the body must see the one declared last, whatever the order in which they finished
            # entering, and a disposable that yields nothing is entered / exited like any other
            silent = self.nd >= 3 and i == 2
            self.disps.append(Disp(w, f"d{i}", yields=[] if silent else [("B", i)], enter=en, exit=ex,
                                   shape="none" if silent else ("auto" if i % 2 else "list"),
                                   spawns="c1" if i == 1 and init.get("esp") else None,
                                   base=(i % 2 == 0)))    # even-numbered disposables fail with a BaseException
        w.start("1")
        w.do("1", "sscope", 100, [("A", 1)], None)
        w.do("1", "try")
        self.left = False

    def _phase(self):
        w = self.w
        for ev in w.events:
            if ev[0] == "1" and ev[1] == "left" and ev[2] == 1:
                return "post", canon(ev[3]), bool(ev[4])
        started = any(ev[0] == "1" and ev[1] == "body" and ev[2] == 1 for ev in w.events)
        st = w.status("1")
        if not self.entered_called:
            return "pre", "none", True
        if started and st == "gate":
            return "body", "none", True
        if not started:
            if any(d.enter_status == "entering" for d in self.disps):
                return "entering", "none", True
            return "rollback", "none", True
        if any(d.exit_status == "exiting" for d in self.disps):
            return "exiting", "none", True
        return "waiting", "none", True

    def _obs(self):
        w = self.w
        ph, out, restored = self._phase()
        body = (0, 0)
        if ph == "body" and "1" in w.at:
            body = (w.at["1"]["A"], w.at["1"]["B"])
        ch = []
        for u in range(1, self.nc + 1):
            st = w.status(f"c{u}")
            ch.append({"gate": "run", "busy": "run"}.get(st, "failed" if st.startswith("failed") else st))
        o = dict(ph=ph, out=out, restored=restored, body=body,
                 d=tuple((d.n_enter, d.n_exit, "unset" if d.exit_arg is None else canon(d.exit_arg)) for d in self.disps),
                 ch=tuple(ch))
        bad = [str(c.get("message")) for c in w.loop.exceptions if "never retrieved" not in str(c.get("message"))]
        bad += w.disp_errors
        if bad:
            o["loop_errors"] = bad
        return o

    entered_called = False

    def apply(self, name, args):
        w = self.w
        if name == "Enter":
            self.entered_called = True
            # the scope is ALSO given a B explicitly: what the disposables yield comes after it and wins
            # (the scope object is made first and kept, so that it can be tried again after the block was left)
            # the disposables come as ONE Disposables object, kept: it may go through a second scope later (Again)
            self.dobj = Disposables(*self.disps) if self.disps else None
            w.do("1", "prepare", "ascope", 1, [("A", 2), ("B", 9)], "s1", dict(disposables=self.dobj))
            w.do("1", "enterprep")
        elif name == "ReleaseEnter":
            w.release(f"de:d{args[0]}", args[1])
        elif name == "ReleaseExit":
            w.release(f"dx:d{args[0]}", args[1])
        elif name == "Leave":
            w.do("1", "leave", args[0])
        elif name == "Spawn":
            w.do("1", "spawn", f"c{args[0]}")
        elif name == "ChildEnd":
            w.do(f"c{args[0]}", "leave", "return")
        elif name == "ChildFail":
            w.do(f"c{args[0]}", "leave", "E")
        elif name in ("ReleaseEnterLate", "ReleaseExitLate", "ChildEndLate"):
            gate = {"ReleaseEnterLate": "de:d", "ReleaseExitLate": "dx:d", "ChildEndLate": "c"}[name] + str(args[0])
            op = args[1] if name != "ChildEndLate" else ("leave", "return")
            in_window = w.then_cancel_late(lambda: w.gates[gate].set_result(op), "1")
            if not in_window:
                o = self._obs()
                o["late"] = "the task was not about to wake when it was cancelled"
                return o
        elif name == "ReEnter":
            w.do("1", "reenter")
        elif name == "Again":
            # a retry: another task opens a NEW scope with the very same Disposables object; nothing fails this time
            for d in self.disps:
                d.enter = d.exit = "ok"
                d.spawns = None
            dobj = self.dobj

            async def second():
                async with ctx.scope("s1-again", disposables=dobj):
                    pass

            w.start("again")
            w.do("again", "call", second)
        elif name == "Cancel":
            w.cancel("1")
        else:
            raise ValueError(name)
        return self._obs()

    def close(self):
        self.w.close()


def gen_trace(rnd, nd=4, nc=3):
    """one scope with 4 disposables (random ok / fail / suspend behaviours) and up to 3 spawned tasks, driven by random
    environment moves chosen among those the REAL system currently offers (suspended enters / exits to release, a
    body to end, tasks to end or fail, one cancellation), recorded until the block is left"""
    beh = ["ok", "ok", "susp", "susp", "fail"]
    cfg = [dict(en=rnd.choice(beh), ex=rnd.choice(beh)) for _ in range(nd)]
    d = ScopeLifeDriver()
    esp = rnd.random() < 0.4
    d.reset(dict(cfg=cfg, esp=esp, x=dict(ch=[0] * nc)))
    tr = [dict(ev="Init", init=dict(cfg=cfg, esp=esp))]
    cancelled = False
    born = 1 if esp else 0

    def log(name, args):
        o = d.apply(name, tuple(args))
        tr.append(dict(ev=name, args=list(args), obs=dict(ph=o["ph"], out=o["out"], restored=o["restored"], body=list(o["body"]),
                                                          d=[list(t) for t in o["d"]], ch=list(o["ch"]))))
        return o

    try:
        o = log("Enter", [])
        for _ in range(40):
            ph = o["ph"]
            if ph == "post" or ph == "pre":
                if ph == "post":
                    if rnd.random() < 0.5:
                        o = log("ReEnter", [])      # the same scope object is tried once more: refused, nothing changes
                    else:
                        o = log("Again", [])        # the same Disposables object goes through a second scope
                break
            ch = []
            for i, dd in enumerate(d.disps, 1):
                if dd.enter_status == "entering":
                    ch += [("ReleaseEnter", [i, "ok"])] * 3 + [("ReleaseEnter", [i, "fail"])]
                if dd.exit_status == "exiting":
                    ch += [("ReleaseExit", [i, "ok"])] * 3 + [("ReleaseExit", [i, "fail"])]
            if ph == "body":
                ch += [("Leave", ["return"])] * 2 + [("Leave", ["E"]), ("Leave", ["BaseE"])]
                if born < nc:
                    ch += [("Spawn", [born + 1])] * 4
            if ph in ("body", "waiting"):
                for u in range(1, born + 1):
                    if o["ch"][u - 1] == "run":
                        ch += [("ChildEnd", [u])] * 2 + [("ChildFail", [u])]
            if not cancelled and ph in ("entering", "rollback", "body", "exiting", "waiting"):
                ch += [("Cancel", [])]
            if not ch:
                break
            name, args = rnd.choice(ch)
            if name == "Spawn":
                born += 1
            if name == "Cancel":
                cancelled = True
            o = log(name, args)
    finally:
        d.close()
    return tr


TRACE_KW = dict(
    variables=["cfg", "esp", "x", "obs"],
    constants=dict(ND=4, NC=3, Behaviours='{"ok", "fail", "susp"}', Bug='"none"'),
    config_vars=["cfg", "esp"],
    actions=dict(Enter=0, ReleaseEnter=2, ReleaseExit=2, Leave=1, Spawn=1, ChildEnd=1, ChildFail=1, Cancel=0,
                 ReleaseEnterLate=2, ReleaseExitLate=2, ChildEndLate=1, ReEnter=0, Again=0),
    invariants=["Restored", "BodyExcIdentity", "EnterOnce", "ExitOnce", "ExitArg", "EnterFailureNoBody", "SurfaceCleanup",
                "CancelNotLost", "CancelAbortsMembers", "NoWaitAfterFailure", "DisposableStateVisible"])


def replay(rep, record):
    from harness.graph import parse_label
    d = ScopeLifeDriver()
    d.reset(record["init"])
    print("  disposables:", record["init"]["cfg"], " first one spawns a task while entering:", record["init"].get("esp"))
    try:
        for lab in record["path"]:
            name, args = parse_label(lab)
            print(f"  {lab} -> {d.apply(name, args)}")
    finally:
        d.close()
