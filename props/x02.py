"""X02 - beyond the listed properties: haiway.utils.mimic.mimic_function (what every decorator dresses its wrapper with).

Not part of MANIFEST.json; run with `tools/extras.sh`."""
from haiway.utils.mimic import mimic_function

from harness.legs import cfg_text, leg_m, leg_mutant, leg_r

SPEC = "Mimic"
MANIFEST = None
INVS = ["AttrOrigin"]
PROPS = ["OwnStateKept", "WrappedIsSource", "LastWins"]
DUNDER = {"module": "__module__", "name": "__name__", "qualname": "__qualname__", "doc": "__doc__", "annotations": "__annotations__",
          "type_params": "__type_params__", "defaults": "__defaults__", "kwdefaults": "__kwdefaults__", "globals": "__globals__"}
_ABSENT = object()


class _Val:
    def __init__(self, tag):
        self.tag = tag

    def __eq__(self, other):       # values that compare equal to everything: only identity tells them apart
        return True

    __hash__ = None                 # type: ignore[assignment]

    def __bool__(self):
        return False


def _make(kind, who, n):
    """A callable of the given kind whose nine attributes are all distinguishable from every other callable's."""
    if kind == "func":
        ns = {"__name__": f"mod_{who}"}
        exec(f"def fn_{who}[T](a: T, b={100 + n}, *, c={200 + n}) -> int:\n    'doc of {who}'\n    return {n}\n", ns)  # noqa: S102
        return ns[f"fn_{who}"]
    if kind == "builtin":
        return len
    body = {"__module__": f"mod_{who}", "__doc__": f"doc of {who}", "__call__": lambda self, *a, **k: n}
    if kind == "slot":
        body["__slots__"] = ()
    return type(f"Callable_{who}", (), body)()


class MimicDriver:
    def reset(self, init):
        self.src = {}
        for i, s in enumerate(("f", "g")):
            o = _make(init["skind"][s], s, i + 1)
            for k in ("x", "y"):
                if init["sdict"][s][k]:
                    setattr(o, k, _Val(f"{s}.{k}"))
            if init["sw"][s]:
                o.__wrapped__ = _Val(f"{s}.wrapped")
            self.src[s] = o
        self.t = _make(init["tkind"], "t", 9)
        for k in ("x", "y"):
            if init["tdict"][k] == "own":
                setattr(self.t, k, _Val(f"t.{k}"))
        if init["wrapped"] == "own":
            self.t.__wrapped__ = _Val("t.wrapped")
        self.orig = {a: getattr(self.t, d, _ABSENT) for a, d in DUNDER.items()}
        self.orig_d = {k: getattr(self.t, k, _ABSENT) for k in ("x", "y")}
        self.orig_w = getattr(self.t, "__wrapped__", _ABSENT)
        self.srcv = {s: {a: getattr(o, d, _ABSENT) for a, d in DUNDER.items()} for s, o in self.src.items()}
        self.srcd = {s: {k: getattr(o, k, _ABSENT) for k in ("x", "y")} for s, o in self.src.items()}

    def _label(self, v, own, of):
        if v is _ABSENT:
            return "none"
        def same(a, b):         # (a builtin hands out a fresh str each time: texts are compared by value - all are distinct)
            return a is b or (type(a) is str and type(b) is str and a == b)
        if own is not _ABSENT and same(v, own):
            return "own"
        for s in ("f", "g"):
            if of[s] is not _ABSENT and same(v, of[s]):
                return s
        return f"odd {getattr(v, 'tag', v)!r}"[:60]

    def _obs(self, k, res):
        attr = {a: self._label(getattr(self.t, d, _ABSENT), self.orig[a], {s: self.srcv[s][a] for s in self.src})
                for a, d in DUNDER.items()}
        dct = {}
        for key in ("x", "y"):
            lab = self._label(getattr(self.t, key, _ABSENT), self.orig_d[key], {s: self.srcd[s][key] for s in self.src})
            dct[key] = "-" if lab == "none" else lab
        w = getattr(self.t, "__wrapped__", _ABSENT)
        wrapped = "-" if w is _ABSENT else "own" if w is self.orig_w else next((s for s, o in self.src.items() if w is o), f"odd {w!r}"[:60])
        return dict(k=k, attr=attr, dict=dct, wrapped=wrapped, res=res)

    def apply(self, name, args):
        s, form = args
        src = self.src[s]
        try:
            r = mimic_function(src, within=self.t) if form == "within" else mimic_function(src)(self.t)
            res = "target" if r is self.t else f"odd result {r!r}"[:60]
        except AttributeError:
            res = "AttributeError"
        except Exception as e:  # noqa: BLE001
            res = f"raised {type(e).__name__}: {e}"[:80]
        return self._obs("mimic", res)

    def close(self):
        pass


def run(rep, work, tier, seed):
    mc = dict(MaxOps=2 if tier == "quick" else 3, Bug="none")
    rep.extra["constants"] = dict(model=mc, conformance=mc)
    leg_m(rep, work, SPEC, f"mc_{tier}", cfg_text(mc, spec="Spec", invariants=INVS, properties=PROPS), expect_actions=["Mimic"], timeout=3000)
    if tier == "thorough":
        leg_mutant(rep, work, SPEC, "mutant_overwrite_dict", cfg_text(dict(MaxOps=2, Bug="overwrite_dict"), spec="Spec", invariants=INVS, properties=PROPS), ["OwnStateKept"])
        leg_mutant(rep, work, SPEC, "mutant_keep_own_wrapped", cfg_text(dict(MaxOps=2, Bug="keep_own_wrapped"), spec="Spec", invariants=INVS, properties=PROPS), ["WrappedIsSource"])
    leg_r(rep, work, SPEC, f"conf_{tier}", cfg_text(mc), MimicDriver)
    rep.assumptions += ["four kinds of source (function, callable object, slotted callable object, builtin) and three kinds of "
                        "target; two __dict__ keys; what each kind has / accepts is a table in the specification"]
    return rep.finish(exhaustive=True, rule="every source kind pair x target kind x __dict__ contents x own __wrapped__, every "
                                            "sequence of up to MaxOps calls in both call forms")


def replay(rep, record):
    from harness.graph import parse_label
    d = MimicDriver()
    d.reset(record["init"])
    for lab in record["path"]:
        name, args = parse_label(lab)
        print(f"  {lab} -> {d.apply(name, args)}")
