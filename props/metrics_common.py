"""Driver shared by C09 / C10 (Metrics.tla): real scopes with completion callbacks and recorded metrics."""
from collections.abc import Sequence
from typing import Literal

from haiway import MISSING, State, ctx

from harness.interp import World


class Cat(State):
    items: Sequence[int]

    def __len__(self) -> int:      # sized, and empty as far as truthiness goes
        return 0


class SubCat(Cat):
    """records of this SUBCLASS are folded by a merge function that answers with an instance of the base class"""


class _Tagged[Tag](State):
    """(falsy: a recorded metric is an arbitrary State - e.g. a counter at zero may well be falsy)"""

    v: int

    def __bool__(self) -> bool:
        return False


# two metric types that are SPECIALISATIONS of one generic state, told apart only by a phantom type argument whose
# names coincide (Literal[...] / Literal[...]): they are different metric types all the same
Last = _Tagged[Literal["last"]]
Sum = _Tagged[Literal["sum"]]


class Boom(State):
    v: int


class Mix(State):
    v: int


class Same(State):
    v: int


ONE = Same(v=1)      # the one shared instance every "Same" record uses


class CallbackFailed(Exception):
    pass


def _boom(lhs, rhs):
    raise RuntimeError("merge failed")


MERGE = {
    "Cat": (Cat, lambda x: Cat(items=(x,)), lambda a, b: Cat(items=(*a.items, *b.items))),
    "CatSub": (SubCat, lambda x: SubCat(items=(x,)), lambda a, b: Cat(items=(*a.items, *b.items))),
    "Last": (Last, lambda x: Last(v=x), None),
    "Sum": (Sum, lambda x: Sum(v=x), lambda a, b: Sum(v=a.v + b.v)),
    "Boom": (Boom, lambda x: Boom(v=x), _boom),
    "Mix": (Mix, lambda x: Mix(v=x), lambda a, b: Mix(v=2 * a.v + b.v)),
    "Same": (Same, lambda x: ONE, lambda a, b: Same(v=a.v + b.v)),
}


_NAME_OF = {cls: name for name, (cls, _, _) in MERGE.items()}


def val_of(m, inst):
    if inst is None:
        return ()
    return tuple(inst.items) if m in ("Cat", "CatSub") else (inst.v,)


def view_merge(cur, rec):
    if cur is MISSING:
        return rec
    if isinstance(rec, Cat):
        return Cat(items=(*cur.items, *rec.items))
    if isinstance(rec, Sum):
        return Sum(v=cur.v + rec.v)
    if isinstance(rec, Same):
        return Same(v=cur.v + rec.v)
    if isinstance(rec, Mix):
        return Mix(v=2 * cur.v + rec.v)
    return rec


_FROZEN = []


def _gc():
    """a full collection; whatever was alive when the first one is requested (the conformance graph, the modules) is
    moved out of the collector's sight first, so that later ones only look at what the scenarios allocate"""
    import gc
    if not _FROZEN:
        gc.collect()
        gc.freeze()
        _FROZEN.append(1)
    gc.collect()


class MetricsDriver:
    def __init__(self, mtypes):
        self.mtypes = tuple(mtypes)
        self.w = None

    def reset(self, init):
        self.w = World(types=())
        self.nt = len(init["alive"])
        self.ns = len(init["phase"])
        self.nsid = 0
        self.nrec = 0
        self.now = 0
        self.depth = {str(t): 0 for t in range(1, self.nt + 1)}
        self.frames = {}
        self.cblog = {s: [] for s in range(1, self.ns + 1)}
        self.objs = {}
        self.made = set()
        self.errors = []
        self.w.start("1")

    def _snapshot(self, m):
        own = {k: val_of(k, m.read(MERGE[k][0])) for k in self.mtypes}
        merged = {_NAME_OF.get(type(x), type(x).__name__): x for x in m.metrics(merge=view_merge)}
        view = {k: val_of(k, merged.get(k)) if k != "CatSub" else () for k in self.mtypes}
        return own, view

    def _cb(self, sid, is_async):
        drv = self

        def record(m):
            drv.objs[sid] = m
            own, view = drv._snapshot(m)
            drv.cblog[sid].append(dict(at=drv.now, completed=bool(m.is_completed), time=m.time, own=own, view=view))
            if sid % 3 == 0:
                # every third callback fails after having looked: user code in a completion callback may raise, and
                # that must neither fail the scope exit nor stop the completion of the enclosing scopes
                raise CallbackFailed(f"completion callback of scope {sid} failed")

        if is_async:
            async def acb(m):
                record(m)
            return acb
        return record

    def _res(self, t):
        """did the last operation of task t blow up?  (the task would no longer be at its gate)"""
        st = self.w.status(str(t))
        if st.startswith("failed:"):
            return "AssertionError" if "AssertionError" in st else st
        return "ok"

    def _obs(self, a, res="ok"):
        o = dict(a=a, cb=tuple(tuple(self.cblog[s]) for s in range(1, self.ns + 1)), res=res)
        bad = [str(c.get("message")) + repr(c.get("exception")) for c in self.w.loop.exceptions
               if not isinstance(c.get("exception"), CallbackFailed)]
        if bad:
            o["loop_errors"] = bad
        return o

    def apply(self, name, args):
        w = self.w
        if name == "Open":
            t, k = args
            self.nsid += 1
            sid = self.nsid
            cb = self._cb(sid, sid % 2 == 0)
            # every scope carries the SAME name (scope names need not be unique - two streams of one generator, two
            # handlers of one kind): nothing about completion may be keyed by the name
            # how the block will be LEFT rotates: normally, by an exception of its body, by a CancelledError of its body (a
            # timeout around it, say) - caught just outside the scope by code that goes on.  A scope that was left is
            # finished, however it was left.  (Async scopes are left normally: with members they wait.)
            mode = ("return", "E", "C")[sid % 3] if k != "a" else "return"
            if mode != "return":
                w.do(str(t), "tryu")
            w.do(str(t), "xscope", k == "a", sid, "metric-scope", dict(completion=cb))
            self.frames.setdefault(str(t), []).append(mode)
            self.depth[str(t)] += 1 if mode == "return" else 2
            return self._obs("open", self._res(t))
        if name == "Make":
            # the scope object is made now (registered under the maker's current scope), kept, and entered later - maybe by
            # another task; it carries no completion callback
            t, k = args
            self.nsid += 1
            self.made.add(self.nsid)
            w.do(str(t), "prepare", "ascope" if k == "a" else "sscope", self.nsid, [])
            return self._obs("make", self._res(t))
        if name == "EnterMade":
            t = args[0]
            # nothing but the library itself keeps the scopes above the made one alive: a garbage collection right here
            # must not lose them
            _gc()
            w.do(str(t), "enterprep")
            self.frames.setdefault(str(t), []).append("return")
            self.depth[str(t)] += 1
            return self._obs("enter", self._res(t))
        if name == "OffLoop":
            t = args[0]
            out = []

            def work():
                try:
                    with ctx.scope("worker"):
                        pass
                    out.append("entered")
                except RuntimeError:
                    out.append("refused")      # no event loop in this thread: fine
                except BaseException as e:  # noqa: BLE001
                    out.append(repr(e)[:120])

            def off_loop():
                import contextvars
                import threading
                th = threading.Thread(target=contextvars.copy_context().run, args=(work,))
                th.start()
                th.join()

            w.do(str(t), "call", off_loop)
            res = self._res(t)
            if res == "ok" and (not out or out[0] not in ("entered", "refused")):
                res = out[0] if out else "thread did not run"
            return self._obs("offloop", res)
        if name == "Close":
            t = args[0]
            fr = self.frames.get(str(t)) or ["return"]
            mode = fr.pop()
            w.do(str(t), "leave", mode)
            self.depth[str(t)] -= 1 if mode == "return" else 2
            return self._obs("close", self._res(t))
        if name == "Start":
            t, u, how = args
            w.do(str(t), "spawn" if how == "spawn" else "plainspawn", str(u))
            return self._obs("start", self._res(t))
        if name == "End":
            w.do(str(args[0]), "leave", "return")
            return self._obs("end")
        if name == "Tick":
            self.now += 1
            w.loop.advance(1000.0 + self.now)
            w.loop.quiesce()
            return self._obs("tick")
        if name == "Record":
            t, m = args
            self.nrec += 1
            x = self.nrec
            cls, make, merge = MERGE[m]
            out = []

            def rec():
                try:
                    if merge is None:
                        ctx.record(make(x))
                    else:
                        ctx.record(make(x), merge=merge)
                except BaseException as e:  # noqa: BLE001
                    out.append(repr(e))

            w.do(str(t), "call", rec)
            return self._obs("record", "ok" if not out else "raised " + out[0])
        if name == "Drain":
            for t in range(self.nt, 0, -1):
                name_t = str(t)
                while w.status(name_t) == "gate" and self.depth[name_t] > 0:
                    w.do(name_t, "leave", "return")
                    self.depth[name_t] -= 1
                if t != 1 and w.status(name_t) == "gate":
                    w.do(name_t, "leave", "return")
            w.loop.quiesce()
            cb = []
            incomplete = False
            for s in range(1, self.ns + 1):
                m = self.objs.get(s)
                if m is None:
                    cb.append(())
                    if s <= self.nsid and s not in self.made:
                        incomplete = True
                    continue
                own, view = self._snapshot(m)
                cb.append((dict(ncalls=len(self.cblog[s]), completed=bool(m.is_completed), time=m.time, own=own, view=view),))
            return dict(a="drain", cb=tuple(cb), res="incomplete" if incomplete else "ok")
        raise ValueError(name)

    def close(self):
        if self.w is not None:
            self.w.close()


def gen_trace(rnd, mtypes, ntasks=4, nscopes=8, nops=30, records=True):
    """a random program over up to 4 tasks and 8 scopes (sync/async, spawned and plain tasks that outlive their scopes,
    records of all metric types, clock ticks), recorded from the real library and closed by Drain"""
    d = MetricsDriver(mtypes)
    d.reset(dict(alive=[0] * 4, phase=[0] * 8))
    tr = [dict(ev="Init", init={})]
    stack = {1: []}
    waiting = {}  # task -> async scope whose spawned tasks it awaits
    base_tg = {1: 0}
    grp = {}
    alive = {1}
    born = 1
    nsid = 0
    opened = set()
    made = None   # (sid, kind) of the scope object that was made and is not entered yet

    def tg_of(t):
        for sid, k in reversed(stack[t]):
            if k == "a":
                return sid
        return base_tg[t]

    def enc(o):
        def rec(x):
            return dict(x, own={k: list(v) for k, v in x["own"].items()}, view={k: list(v) for k, v in x["view"].items()})
        return dict(a=o["a"], cb=[[rec(x) for x in lst] for lst in o["cb"]], res=o["res"])

    try:
        for _ in range(nops):
            for u in [u for u, sid in waiting.items() if not any(grp.get(x) == sid for x in alive)]:
                del waiting[u]  # the group emptied: the exit completed by itself
            t = rnd.choice(sorted(alive - set(waiting)))
            ch = [("Tick", [])]
            if nsid < nscopes and len(stack[t]) < 4:
                ch += [("Open", [t, rnd.choice(["s", "a"])])] * 4
                if made is None:
                    ch += [("Make", [t, rnd.choice(["s", "a"])])]
            if made is not None and len(stack[t]) < 4:
                ch += [("EnterMade", [t])] * 2
            if stack[t]:
                ch += [("OffLoop", [t])]
            if stack[t]:
                sid, k = stack[t][-1]
                ch += [("Close", [t])] * 3
            if born < ntasks:
                hows = ["plain"]
                if tg_of(t) != 0 and tg_of(t) in opened:
                    hows.append("spawn")
                ch += [("Start", [t, born + 1, rnd.choice(hows)])] * 2
            if not stack[t] and t != 1:
                ch.append(("End", [t]))
            if records:
                ch += [("Record", [t, rnd.choice(list(mtypes))])] * 3
            name, args = rnd.choice(ch)
            if name == "Open":
                nsid += 1
                stack[t].append((nsid, args[1]))
                opened.add(nsid)
            elif name == "Make":
                nsid += 1
                made = (nsid, args[1])
            elif name == "EnterMade":
                stack[t].append(made)
                opened.add(made[0])
                made = None
            elif name == "Close":
                sid, k = stack[t].pop()
                opened.discard(sid)
                if k == "a" and any(grp.get(u) == sid for u in alive):
                    waiting[t] = sid
            elif name == "Start":
                born += 1
                base_tg[born] = tg_of(t)
                grp[born] = tg_of(t) if args[2] == "spawn" else 0
                stack[born] = []
                alive.add(born)
            elif name == "End":
                alive.discard(t)
            o = d.apply(name, tuple(args))
            tr.append(dict(ev=name, args=args, obs=enc(o)))
        o = d.apply("Drain", ())
        tr.append(dict(ev="Drain", args=[], obs=enc(o)))
    finally:
        d.close()
    return tr


def wide_trace(nchildren=258):
    """one long-lived scope under which hundreds of scopes are opened and left one after another (a server scope with a
    scope per request); it is left last and completes then - however many there were"""
    d = MetricsDriver(["Cat"])
    d.reset(dict(alive=[0], phase=[0] * (nchildren + 1)))
    tr = [dict(ev="Init", init={})]

    def enc(o):
        def rec(x):
            return dict(x, own={k: list(v) for k, v in x["own"].items()}, view={k: list(v) for k, v in x["view"].items()})
        return dict(a=o["a"], cb=[[rec(x) for x in lst] for lst in o["cb"]], res=o["res"])

    def step(name, args):
        o = d.apply(name, tuple(args))
        tr.append(dict(ev=name, args=list(args), obs=enc(o)))

    try:
        step("Open", [1, "s"])
        for _ in range(nchildren):
            step("Open", [1, "s"])
            step("Close", [1])
        step("Close", [1])
        step("Drain", [])
    finally:
        d.close()
    return tr


def trace_kw(mtypes, ntasks=4, n=8):
    return dict(
        variables=["par", "kids", "phase", "mk", "kind", "done", "born", "doneAt", "cbq", "cblog", "vals", "cur", "tg", "stack",
                   "saved", "grp", "alive", "wait", "now", "nrec", "nops", "drained", "obs"],
        constants=dict(NTasks=ntasks, N=n, MaxOps=100000, MaxRec=100000, MaxT=100000,
                       MTypes="{" + ", ".join(f'"{m}"' for m in mtypes) + "}", Kinds='{"s", "a"}', Prep="TRUE", Threads="TRUE", Bug='"none"'),
        config_vars=[], actions=dict(Open=2, Make=2, EnterMade=1, OffLoop=1, Close=1, Start=3, End=1, Tick=0, Record=2, Drain=0),
        internal="Internal", quiet="M!Rest",
        invariants=["CbAtMostOnce", "CbAfterSubtree", "CbAfterMembers", "CbSeesCompleted", "ExitNeverFails", "FoldOrder"])
