#!/bin/sh
# Offline setup: nothing to build (pure Python + TLA+ specs); verify the toolchain and parse every spec.
set -e
cd "$(dirname "$0")"
java -version >/dev/null 2>&1
/venv/bin/python -c "import sys; assert sys.version_info[:2] == (3, 12)"
for f in specs/*.tla; do
  m=$(basename "$f" .tla)
  (cd specs && java -cp /opt/veriftools/tla/tla2tools.jar:/opt/veriftools/tla/CommunityModules-deps.jar tla2sany.SANY "$m.tla" >/tmp/sany_$$.log 2>&1) || { cat /tmp/sany_$$.log; rm -f /tmp/sany_$$.log; exit 1; }
  if grep -q "Semantic errors\|Parse Error\|\*\*\* Errors" /tmp/sany_$$.log; then cat /tmp/sany_$$.log; rm -f /tmp/sany_$$.log; exit 1; fi
done
rm -f /tmp/sany_$$.log
echo "setup ok"
