"""Leg R: edge-covering walk of a TLC state graph, replayed into the real implementation with
on-the-fly conformance (observation of the real system must equal `obs` of a spec successor)."""
import os
import time
import traceback
from collections import deque

KF = "_KF_"


def norm(v):
    """make python observations comparable with parsed TLA+ values"""
    if isinstance(v, (list, tuple)):
        return tuple(norm(x) for x in v)
    if isinstance(v, dict):
        d = {k: norm(x) for k, x in v.items()}
        if d and all(isinstance(k, int) for k in d) and sorted(d) == list(range(1, len(d) + 1)):
            return tuple(d[i] for i in range(1, len(d) + 1))
        return d
    if isinstance(v, (set, frozenset)):
        return frozenset(norm(x) for x in v)
    if isinstance(v, bool) or v is None or isinstance(v, (int, str)):
        return v
    if isinstance(v, float) and v == int(v):
        return int(v)
    return v


ANY = "?"


def matches(observed, expected):
    """equality, except that the wildcard ANY in an observation matches anything"""
    if observed == expected:
        return True
    if isinstance(observed, str) and observed == ANY:
        return True
    if isinstance(observed, tuple) and isinstance(expected, tuple) and len(observed) == len(expected):
        return all(matches(o, e) for o, e in zip(observed, expected))
    if isinstance(observed, dict) and isinstance(expected, dict) and observed.keys() == expected.keys():
        return all(matches(observed[k], expected[k]) for k in observed)
    return False


def diff_paths(a, b, prefix=""):
    """paths at which two observations differ"""
    if a == b or (isinstance(a, str) and a == ANY):
        return []
    if isinstance(a, dict) and isinstance(b, dict) and a.keys() == b.keys():
        out = []
        for k in a:
            out += diff_paths(a[k], b[k], f"{prefix}.{k}" if prefix else str(k))
        return out
    if isinstance(a, tuple) and isinstance(b, tuple) and len(a) == len(b):
        out = []
        for i, (x, y) in enumerate(zip(a, b)):
            out += diff_paths(x, y, f"{prefix}[{i + 1}]")
        return out
    return [prefix or "."]


def base_name(name):
    return name.split(KF)[0]


class Violation(Exception):
    def __init__(self, record):
        super().__init__(record.get("why", "violation"))
        self.record = record


class Walker:
    """Covers every controlled edge of the graph with runs of the real system.  Each run follows the
    BFS-tree path from an initial state to the source of an uncovered edge, takes it, and then keeps
    extending through locally uncovered edges.  The current spec position is a *set* of states (spec
    nondeterminism / hidden state), narrowed by each observation."""

    def __init__(self, graph, driver_factory, internal=(), max_len=80, shard=(0, 1), budget_s=None,
                 edge_filter=None, max_violations=5):
        self.g = graph
        self.factory = driver_factory
        self.internal = set(internal)
        self.max_len = max_len
        self.shard = shard
        self.budget_s = budget_s
        self.max_violations = max_violations
        self.covered = set()
        self.alt = set()  # edges given up: a sibling successor (spec nondeterminism) explained the observation
        self.targets = set()
        self.todo = {}  # u -> set of (lab, v) still to cover
        self.blocked = set()  # (u, lab) that led to a violation
        self.steps = 0
        self.runs = 0
        self.action_hits = {}
        self.kf_hits = {}
        self.kf_cases = {}
        self.dead = set()
        self.diverted = set()
        self.reach = {}  # spec state -> (initial state, actions that really led the implementation there)
        self.samples = []
        self.violations = []
        self._closure = {}
        self.adj = {}
        g = self.g
        for u, d in g.out.items():
            lst = []
            for lab, vs in d.items():
                if g.label(lab)[0] in self.internal:
                    continue
                for v in vs:
                    lst.append((lab, v))
            self.adj[u] = lst
        # BFS tree over quiescent states from every initial state
        self.parent = {}
        self.depth = {}
        self.root = {}
        dq = deque()
        for i in g.inits:
            for t in self.closure(i)[0]:
                if t not in self.parent:
                    self.parent[t] = None
                    self.depth[t] = 0
                    self.root[t] = i
                    dq.append(t)
        while dq:
            u = dq.popleft()
            for lab, v in self.adj[u]:
                for t in self.closure(v)[0]:
                    if t not in self.parent:
                        self.parent[t] = (u, lab, v)
                        self.depth[t] = self.depth[u] + 1
                        self.root[t] = self.root[u]
                        dq.append(t)
        self.group = {}
        for u in self.parent:
            for lab, v in self.adj[u]:
                n2, a2 = g.label(lab)
                self.group.setdefault((u, base_name(n2), a2), []).append((u, lab, v))
        idx, n = shard
        for u in self.parent:  # only quiescent reachable states have controlled edges worth targeting
            for lab, v in self.adj[u]:
                e = (u, lab, v)
                if edge_filter and not edge_filter(e):
                    continue
                n2, a2 = g.label(lab)
                if n == 1 or (hash((u, base_name(n2), a2)) % n) == idx:
                    self.targets.add(e)
                    self.todo.setdefault(u, set()).add((lab, v))

    # ---- spec side
    def closure(self, n):
        """terminal states reachable from n through internal actions (n itself when quiescent)"""
        r = self._closure.get(n)
        if r is not None:
            return r
        terms, seen, stack, used = set(), {n}, [n], []
        while stack:
            u = stack.pop()
            inner = [(lab, v) for lab, vs in self.g.out[u].items() if self.g.label(lab)[0] in self.internal
                     for v in vs if v != u]
            if not inner:
                terms.add(u)
                continue
            for lab, v in inner:
                used.append((u, lab, v))
                if v not in seen:
                    seen.add(v)
                    stack.append(v)
        r = self._closure[n] = (frozenset(terms), used)
        return r

    def _done(self, e):
        if e in self.targets:
            self.targets.discard(e)
            s = self.todo.get(e[0])
            if s is not None:
                s.discard((e[1], e[2]))
                if not s:
                    del self.todo[e[0]]

    def _tree_path(self, u):
        p = []
        while self.parent[u] is not None:
            e = self.parent[u]
            p.append(e)
            u = e[0]
        return p[::-1]

    def _local_target(self, cur):
        for u in cur:
            s = self.todo.get(u)
            if s:
                for lab, v in s:
                    if (u, lab) not in self.blocked:
                        return (u, lab, v)
        return None

    # ---- one run: a path to the target's source, the target, then greedy extension.  The path is the sequence of
    # actions that really led the implementation there in an earlier run when one is known (self.reach), else the
    # BFS-tree path of the graph (which spec nondeterminism / deviation havoc may make unrealisable: "diverted")
    def _first_edge(self, cur, bname, args):
        for s in cur:
            for e2 in self.group.get((s, bname, args), ()):
                return e2
        return None

    def _run(self, target):
        g = self.g
        tname, targs = g.label(target[1])
        real = self.reach.get(target[0])
        if real is not None:
            init, steps = real
            plan = [(b, a, None) for (b, a) in steps] + [(base_name(tname), targs, target[0])]
        else:
            init = self.root[target[0]]
            plan = []
            for (u0, lab0, v0) in self._tree_path(target[0]):
                n0, a0 = g.label(lab0)
                plan.append((base_name(n0), a0, u0))
            plan.append((base_name(tname), targs, target[0]))
        drv = self.factory()
        path = []
        acts = []
        try:
            drv.reset(g.state(init))
            cur = self.closure(init)[0]
            k = 0
            while len(path) < self.max_len:
                e = None
                if k < len(plan):
                    pb, pa, src = plan[k]
                    k += 1
                    if src is None or src in cur:
                        e = self._first_edge(cur, pb, pa)
                        if e is not None and (e[0], e[1]) in self.blocked:
                            e = None
                    if e is None:
                        # diverted: the planned state is not where this implementation is; carry on from here.  The
                        # state the tree path expected is dead for tree-path planning (phase 2 still reaches whatever
                        # the implementation really reaches)
                        if src is not None and src not in cur:
                            self.dead.add(src)
                        self.diverted.add(target)
                        k = len(plan)
                if e is None and k >= len(plan):
                    e = self._local_target(cur)
                    if e is None:
                        break
                u, lab, v = e
                name, args = g.label(lab)
                bname = base_name(name)
                try:
                    observed = norm(drv.apply(bname, args))
                except Violation:
                    raise
                except Exception as ex:  # driver / implementation blew up where the model expects an answer
                    observed = ("EXCEPTION", type(ex).__name__, str(ex)[:200],
                                traceback.format_exc()[-1500:])
                self.steps += 1
                self.action_hits[bname] = self.action_hits.get(bname, 0) + 1
                # all spec successors for this driver action (intended label and deviation labels)
                cands = []
                for s in cur:
                    for lab2, vs in g.out[s].items():
                        n2, a2 = g.label(lab2)
                        if base_name(n2) == bname and a2 == args:
                            for v2 in vs:
                                cands.append((s, lab2, v2))
                matched, new = [], set()
                for (s, lab2, v2) in cands:
                    terms, used = self.closure(v2)
                    hit = [t for t in terms if matches(observed, norm(g.obs(t)))]
                    if hit:
                        matched.append((s, lab2, v2))
                        new.update(hit)
                        self.covered.update(used)
                # an intended (non-deviation) successor that explains the observation wins over deviation ones
                plain = [m for m in matched if KF not in g.label(m[1])[0]]
                if plain and len(plain) < len(matched):
                    matched = plain
                    new = set()
                    for (s, lab2, v2) in matched:
                        new.update(t for t in self.closure(v2)[0] if matches(observed, norm(g.obs(t))))
                path.append(dict(label=lab, observed=observed))
                if not matched:
                    expected = []
                    for (s, lab2, v2) in cands:
                        for t in self.closure(v2)[0]:
                            o = norm(g.obs(t))
                            if o not in expected:
                                expected.append(o)
                    for s in cur:
                        self.blocked.add((s, lab))
                    self._done(e)
                    self._done(target)
                    raise Violation(dict(why="no spec successor explains the observation",
                                         init=g.state(init), path=[p["label"] for p in path],
                                         action=lab, observed=observed, expected=expected))
                # this action instance has been exercised from these states: its other successors (spec
                # nondeterminism, deviation havoc) are alternatives this implementation did not take
                for s in cur:
                    for e2 in self.group.get((s, bname, args), ()):
                        if e2 in self.targets and e2 not in matched:
                            self._done(e2)
                            self.alt.add(e2)
                for m in matched:
                    self.covered.add(m)
                    self._done(m)
                    n2 = g.label(m[1])[0]
                    if KF in n2:
                        kid = n2.split(KF)[1]
                        self.kf_hits[kid] = self.kf_hits.get(kid, 0) + 1
                        intended = [norm(g.obs(t)) for (s3, lab3, v3) in cands if KF not in g.label(lab3)[0]
                                    for t in self.closure(v3)[0]]
                        diff = tuple(sorted(diff_paths(observed, intended[0]))) if intended else ("no-intended-successor",)
                        key = (kid, base_name(n2), diff, repr(sorted(g.state(init).items(), key=repr))[:300])
                        if key not in self.kf_cases and len(self.kf_cases) < 1000:
                            self.kf_cases[key] = dict(kid=kid, action=lab, diff=list(diff), observed=observed,
                                                      intended=intended[0] if intended else None,
                                                      init=g.state(init), path=[p["label"] for p in path])
                if e in self.targets:  # a sibling explained it; the intended edge is not taken by this impl
                    self._done(e)
                    self.alt.add(e)
                cur = frozenset(new)
                acts.append((bname, args))
                if len(cur) == 1:
                    r = next(iter(cur))
                    if r not in self.reach:
                        self.reach[r] = (init, list(acts))
            post = getattr(drv, "epilogue", None)
            if post is not None:
                post()
        finally:
            try:
                drv.close()
            except Exception:
                pass
        self.runs += 1
        if len(self.samples) < 3 and len(path) > 2:
            self.samples.append([dict(label=p["label"], observed=repr(p["observed"])) for p in path][:25])
        return path

    def walk(self):
        t0 = time.time()
        seen_v = set()

        def attempt(target):
            try:
                self._run(target)
            except Violation as v:
                key = (v.record.get("action"), repr(v.record.get("observed")))
                if key not in seen_v:
                    seen_v.add(key)
                    self.violations.append(v.record)

        def out_of_budget():
            return (self.budget_s and time.time() - t0 > self.budget_s) or len(self.violations) >= self.max_violations

        # phase 1: every target once, nearest first
        for target in sorted(self.targets, key=lambda e: (self.depth[e[0]], e)):
            if target not in self.targets or target in self.diverted:
                continue
            if target[0] not in self.reach and self.dead and self._through_dead(target[0]):
                continue
            if out_of_budget():
                break
            attempt(target)
        # phase 2: states the implementation really reached keep being revisited along the actions that led there until
        # every action instance enabled in them has been exercised (complete for what the implementation can reach,
        # whatever the BFS tree looked like)
        progress = True
        while progress and not out_of_budget():
            progress = False
            for r in list(self.reach):
                while self.todo.get(r) and not out_of_budget():
                    lab, v = next(iter(self.todo[r]))
                    target = (r, lab, v)
                    before = len(self.todo.get(r, ()))
                    attempt(target)
                    if len(self.todo.get(r, ())) >= before:   # no progress on this state: give the target up
                        self._done(target)
                        self.alt.add(target)
                    progress = True
        # whatever is left was never reached by this implementation
        for target in list(self.targets):
            self._done(target)
            self.alt.add(target)
        return self

    def _through_dead(self, u):
        while u is not None:
            if u in self.dead:
                return True
            e = self.parent[u]
            u = e[0] if e is not None else None
        return False

    def _stuck(self, target):
        """a target that a run did not manage to cover is retried once, then given up as alternative"""
        n = getattr(self, "_tries", None)
        if n is None:
            n = self._tries = {}
        n[target] = n.get(target, 0) + 1
        if n[target] >= 1:
            self.alt.add(target)
            return True
        return False

    def stats(self):
        total = self.g.n_edges
        internal = sum(1 for e in self.g.edges() if self.g.label(e[1])[0] in self.internal)
        return dict(edges_total=total, edges_internal=internal,
                    edges_covered=len(self.covered), edges_alternative=len(self.alt),
                    edges_uncovered=len(self.targets), runs=self.runs, steps=self.steps,
                    impl_action_hits=dict(sorted(self.action_hits.items())), known_finding_hits=dict(self.kf_hits),
                    known_finding_cases=list(self.kf_cases.values()))


def _worker(args):
    graph, factory, kw, shard = args
    w = Walker(graph, factory, shard=shard, **kw)
    w.walk()
    return dict(covered=w.covered, alt=w.alt, left=w.targets, steps=w.steps, runs=w.runs,
                hits=w.action_hits, kf=w.kf_hits, kfc=w.kf_cases, samples=w.samples, violations=w.violations)


def walk_sharded(graph, factory, nproc=8, **kw):
    """fork nproc walkers over disjoint target sets (graph shared copy-on-write)"""
    import multiprocessing as mp
    if nproc <= 1 or graph.n_edges < 2000:
        w = Walker(graph, factory, **kw).walk()
        st = w.stats()
        return st, w.samples, w.violations
    ctx = mp.get_context("fork")
    global _G
    _G = (graph, factory, kw)
    with ctx.Pool(nproc) as pool:
        parts = pool.map(_fork_worker, [(i, nproc) for i in range(nproc)])
    covered, alt, left = set(), set(), set()
    steps = runs = 0
    hits, kf, samples, violations = {}, {}, [], []
    kfc = {}
    for p in parts:
        for k, v in p["kfc"].items():
            kfc.setdefault(k, v)
        covered |= p["covered"]
        alt |= p["alt"]
        left |= p["left"]
        steps += p["steps"]
        runs += p["runs"]
        for k, v in p["hits"].items():
            hits[k] = hits.get(k, 0) + v
        for k, v in p["kf"].items():
            kf[k] = kf.get(k, 0) + v
        samples += p["samples"][:1]
        violations += p["violations"]
    left -= covered
    left -= alt
    internal = set(kw.get("internal", ()))
    total = graph.n_edges
    n_int = sum(1 for e in graph.edges() if graph.label(e[1])[0] in internal)
    st = dict(edges_total=total, edges_internal=n_int, edges_covered=len(covered),
              edges_alternative=len(alt), edges_uncovered=len(left), runs=runs, steps=steps,
              impl_action_hits=dict(sorted(hits.items())), known_finding_hits=kf,
              known_finding_cases=list(kfc.values()))
    return st, samples[:3], violations


_G = None


def _fork_worker(shard):
    graph, factory, kw = _G
    return _worker((graph, factory, kw, shard))
