"""Deterministic virtual-time asyncio loop with externally controlled stepping.

VLoop never touches I/O.  time() is a virtual clock the driver advances; handles are run one at
a time under a pluggable policy so that schedules are chosen by the driver (leg R: FIFO macro
steps via quiesce(); leg T: handle-level choices).
"""
import asyncio
import heapq
import sys
import time as _time
from asyncio import events

_REAL_MONOTONIC = _time.monotonic
_REAL_SLEEP = _time.sleep


class Hang(RuntimeError):
    pass


class VLoop(asyncio.BaseEventLoop):
    def __init__(self, start=1000.0):
        super().__init__()
        self._vtime = float(start)
        self._clock_resolution = 0.0
        self.exceptions = []  # contexts passed to the loop exception handler
        self.set_exception_handler(lambda loop, c: self.exceptions.append(c))
        self.policy = None  # callable(list_of_handles) -> index
        self.handles_run = 0

    # --- things BaseEventLoop expects from subclasses
    def time(self):
        return self._vtime

    def _process_events(self, event_list):
        pass

    def _write_to_self(self):
        pass

    # --- controlled stepping
    def _move_due(self):
        while self._scheduled and self._scheduled[0]._when <= self._vtime:
            h = heapq.heappop(self._scheduled)
            h._scheduled = False
            if not h._cancelled:
                self._ready.append(h)

    def live_ready(self):
        self._move_due()
        return [h for h in self._ready if not h._cancelled]

    def step(self):
        """run exactly one ready handle (chosen by policy); False if none ready"""
        live = self.live_ready()
        if not live:
            self._ready.clear()
            return False
        idx = self.policy(live) if self.policy else 0
        h = live[idx]
        self._ready.remove(h)
        self._run_handle(h)
        return True

    def step_where(self, pred):
        """run the first ready handle satisfying pred (a predicate over Handle); False if there is none"""
        for h in self.live_ready():
            if pred(h):
                self._ready.remove(h)
                self._run_handle(h)
                return True
        return False

    def quiesce_where(self, pred, limit=200000):
        n = 0
        while self.step_where(pred):
            n += 1
            if n > limit:
                raise Hang("livelock: handle limit exceeded")
        return n

    def _run_handle(self, h):
        self.handles_run += 1
        prev = events._get_running_loop()
        events._set_running_loop(self)
        # like run_forever(): async generators first iterated while this loop runs get the loop's finaliser, so one that
        # is dropped unfinished is closed by a task the loop schedules (in a copy of the context current at that moment)
        # and not synchronously on the spot
        hooks = sys.get_asyncgen_hooks()
        sys.set_asyncgen_hooks(firstiter=self._asyncgen_firstiter_hook, finalizer=self._asyncgen_finalizer_hook)
        try:
            h._run()
        finally:
            sys.set_asyncgen_hooks(*hooks)
            events._set_running_loop(prev)

    def quiesce(self, limit=200000):
        """run until no handle is ready at the current virtual time"""
        n = 0
        while self.step():
            n += 1
            if n > limit:
                raise Hang("livelock: handle limit exceeded")
        return n

    def next_timer(self):
        while self._scheduled and self._scheduled[0]._cancelled:
            h = heapq.heappop(self._scheduled)
            h._scheduled = False
        return self._scheduled[0]._when if self._scheduled else None

    def pending_timers(self):
        return sorted(h._when for h in self._scheduled if not h._cancelled)

    def advance(self, to):
        if to < self._vtime:
            raise ValueError("time goes backwards")
        self._vtime = float(to)

    def advance_by(self, dt):
        self._vtime += dt

    def run_all(self, until=None, limit=1000000):
        """quiesce, then jump to the next timer, until nothing is left (or time bound)"""
        n = 0
        while True:
            n += self.quiesce(limit)
            nt = self.next_timer()
            if nt is None or (until is not None and nt > until):
                if until is not None and until > self._vtime:
                    self._vtime = float(until)
                return n
            self.advance(max(nt, self._vtime))

    def run_coro(self, coro, limit=1000000):
        """drive coro to completion on virtual time; raises Hang when it cannot finish"""
        task = self.create_task(coro)
        self.run_all(limit=limit)
        if not task.done():
            raise Hang("task did not finish on a quiescent loop")
        return task.result()

    def shutdown(self):
        """cancel whatever is left, drain, close"""
        events._set_running_loop(self)
        try:
            tasks = [t for t in asyncio.all_tasks(self) if not t.done()]
        finally:
            events._set_running_loop(None)
        for t in tasks:
            t.cancel()
        try:
            self.run_all(limit=100000)
        except Exception:
            pass
        self._ready.clear()
        self._scheduled.clear()
        if not self.is_closed():
            self.close()


_ELDER = []


def elder_loop():
    """an event loop older than every scenario's own and never closed: wrapper objects are module-level things that a
    program may use on one loop and later - or meanwhile - on another, so the drivers make the FIRST use of a wrapper on
    this loop and the use under test on the scenario's own"""
    if not _ELDER:
        _ELDER.append(VLoop(start=1000.0))
    return _ELDER[0]


class VClock:
    """Patches time.monotonic / time.sleep and every haiway module global bound to them so that
    the library reads the loop's virtual clock.  Works by identity of the original functions, so
    a refactor from `from time import monotonic` to `time.monotonic()` keeps working."""

    def __init__(self, loop):
        self.loop = loop
        self.sleeps = []  # sync sleeps requested by library code
        self._saved = []

    def monotonic(self):
        return self.loop._vtime

    def sleep(self, dt):
        self.sleeps.append(dt)
        if dt > 0:
            self.loop._vtime += dt

    def __enter__(self):
        self._saved.append((_time, "monotonic", _time.monotonic))
        self._saved.append((_time, "sleep", _time.sleep))
        _time.monotonic = self.monotonic
        _time.sleep = self.sleep
        for name, mod in list(sys.modules.items()):
            if mod is None or not (name == "haiway" or name.startswith("haiway.")):
                continue
            for attr, val in list(vars(mod).items()):
                if val is _REAL_MONOTONIC:
                    self._saved.append((mod, attr, val))
                    setattr(mod, attr, self.monotonic)
                elif val is _REAL_SLEEP:
                    self._saved.append((mod, attr, val))
                    setattr(mod, attr, self.sleep)
        return self

    def __exit__(self, *exc):
        for mod, attr, val in reversed(self._saved):
            setattr(mod, attr, val)
        self._saved.clear()
        return False


class Falsy:
    """a value double that is FALSY: results, elements and items handed through the library are arbitrary user objects,
    so nothing in the library may decide by their truthiness (`if result:` where `if result is not None:` is meant)"""

    __slots__ = ("tag",)

    def __init__(self, tag=None):
        self.tag = tag

    def __bool__(self):
        return False

    # ... and every such value is ==-equal to, and hashes like, every other one (value objects): nothing in the library
    # may find, deduplicate or match them by equality where identity is meant
    def __eq__(self, other):
        return isinstance(other, Falsy)

    def __hash__(self):
        return 17

    def __repr__(self):
        return f"Falsy({self.tag!r})"


async def swallowed_cancel():
    """Make the current task one that WAS cancelled, received the CancelledError and carried on (a graceful-shutdown handler,
    a restartable worker): Task.cancelling() stays above zero although nothing is pending.  Library code that asks
    "was I asked to cancel" through cancelling() on behalf of a user function must not mistake that for a new request."""
    task = asyncio.current_task()
    task.cancel()
    try:
        await asyncio.sleep(0)
    except asyncio.CancelledError:
        pass
    assert task.cancelling() == 1
