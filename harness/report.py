"""Evidence files, replay files, known findings, verdict lines."""
import hashlib
import json
import os
import sys
import time

ROOT = os.path.dirname(os.path.dirname(os.path.abspath(__file__)))
# VERIF_EVIDENCE_DIR: used by tools/try_seed.sh so that runs against a deliberately broken tree do not overwrite the
# evidence of the real one
EVIDENCE = os.environ.get("VERIF_EVIDENCE_DIR") or os.path.join(ROOT, "evidence")
REPLAYS = os.path.join(EVIDENCE, "replays")
KNOWN = os.path.join(ROOT, "known_findings.json")


def jsonable(v):
    if isinstance(v, dict):
        return {str(k): jsonable(x) for k, x in v.items()}
    if isinstance(v, (list, tuple)):
        return [jsonable(x) for x in v]
    if isinstance(v, (set, frozenset)):
        return sorted((jsonable(x) for x in v), key=repr)
    if isinstance(v, (str, int, float, bool)) or v is None:
        return v
    return repr(v)


def known_findings(pid):
    try:
        data = json.load(open(KNOWN))
    except FileNotFoundError:
        return []
    return [k for k in data.get("findings", []) if k.get("property") == pid and k.get("status") == "open"]


class Report:
    """collects what one check run covered; decides exit code"""

    def __init__(self, pid, tier, seed):
        self.pid, self.tier, self.seed = pid, tier, seed
        self.t0 = time.time()
        self.states = 0
        self.transitions = 0
        self.traces = 0
        self.samples = []
        self.extra = {}
        self.assumptions = []
        self.violations = []  # (record, replay_path)
        self.kf_seen = {}  # id -> text
        self.legs = []

    def log(self, *a):
        print(f"[{self.pid}]", *a, flush=True)

    def add_model(self, name, res, constants=None):
        self.states += res.distinct
        self.transitions += res.generated
        d = res.summary()
        d["cfg"] = name
        if constants:
            d["constants"] = constants
        if res.coverage:
            d["spec_action_hits"] = {k: v[1] for k, v in sorted(res.coverage.items())}
        self.legs.append(d)

    def violation(self, record, tag="v"):
        os.makedirs(REPLAYS, exist_ok=True)
        rec = jsonable(dict(property=self.pid, tier=self.tier, seed=self.seed, **record))
        digest = hashlib.sha1(json.dumps(rec, sort_keys=True).encode()).hexdigest()[:10]
        path = os.path.join(REPLAYS, f"{self.pid}-{tag}-{digest}.json")
        with open(path, "w") as f:
            json.dump(rec, f, indent=1)
        self.violations.append((rec, path))
        print(f"VIOLATION property={self.pid} replay={path}", flush=True)
        why = rec.get("why", "")
        print(f"[{self.pid}]   {why}: action={rec.get('action')} observed={rec.get('observed')!r}"[:600], flush=True)
        if "expected" in rec:
            print(f"[{self.pid}]   expected one of: {rec.get('expected')!r}"[:600], flush=True)
        if "path" in rec:
            print(f"[{self.pid}]   after: {rec.get('path')!r}"[:600], flush=True)
        if "init" in rec and len(repr(rec["init"])) < 700:
            print(f"[{self.pid}]   from initial state: {rec.get('init')!r}"[:800], flush=True)

    def known(self, kid, text):
        if kid not in self.kf_seen:
            self.kf_seen[kid] = text
            print(f"KNOWN-FINDING: property={self.pid} {kid} {text}", flush=True)

    def finish(self, level="model_checking", rule=None, exhaustive=None):
        cov = dict(states=int(self.states), transitions=int(self.transitions),
                   traces_validated_against_impl=int(self.traces),
                   samples=jsonable(self.samples[:6]) or ["(none)"],
                   legs=jsonable(self.legs))
        if rule:
            cov["rule"] = rule
        if exhaustive is not None:
            cov["exhaustive"] = bool(exhaustive)
        cov.update(jsonable(self.extra))
        cov["known_findings_met"] = sorted(self.kf_seen)
        ev = dict(property_id=self.pid, tier=self.tier, seed=int(self.seed), level=level, coverage=cov,
                  assumptions=self.assumptions, wall_s=round(time.time() - self.t0, 2),
                  violations=len(self.violations))
        if os.environ.get("VERIF_OPT") == "1":
            # the optimised pass reports to the run that started it (harness/main.py), it writes no evidence file of its own
            print("OPT-SUMMARY " + json.dumps(dict(traces=int(self.traces), states=int(self.states),
                                                   violations=len(self.violations), wall_s=ev["wall_s"],
                                                   legs=jsonable(self.extra.get("trace_validation", []))
                                                   + [dict(cfg=r.get("cfg"), runs=r.get("runs")) for r in self.extra.get("replay", [])])),
                  flush=True)
            return 0 if not self.violations else 1
        os.makedirs(EVIDENCE, exist_ok=True)
        with open(os.path.join(EVIDENCE, f"{self.pid}.json"), "w") as f:
            json.dump(ev, f, indent=1)
        ok = not self.violations
        self.log(f"{'PASS' if ok else 'FAIL'} tier={self.tier} states={self.states} transitions={self.transitions} "
                 f"impl_traces={self.traces} wall={ev['wall_s']}s")
        return 0 if ok else 1
