"""Parser for TLC's textual rendering of TLA+ values and of states (/\\ v = value ...)."""
import re

_TOK = re.compile(r'''\s*(?:
    (?P<str>"(?:[^"\\]|\\.)*") |
    (?P<num>-?\d+) |
    (?P<id>[A-Za-z_][A-Za-z0-9_]*) |
    (?P<op><<|>>|\|->|:>|@@|\[|\]|\{|\}|\(|\)|,|\.\.)
)''', re.X)


def _tokens(s):
    pos, out = 0, []
    s = s.strip()
    while pos < len(s):
        m = _TOK.match(s, pos)
        if not m:
            raise ValueError(f"bad TLA value at {pos}: {s[pos:pos+40]!r}")
        pos = m.end()
        if m.group('str') is not None:
            out.append(('str', bytes(m.group('str')[1:-1], 'utf-8').decode('unicode_escape')))
        elif m.group('num') is not None:
            out.append(('num', int(m.group('num'))))
        elif m.group('id') is not None:
            out.append(('id', m.group('id')))
        else:
            out.append(('op', m.group('op')))
    return out


class _P:
    def __init__(self, toks):
        self.t, self.i = toks, 0

    def peek(self):
        return self.t[self.i] if self.i < len(self.t) else (None, None)

    def eat(self, kind=None, val=None):
        k, v = self.peek()
        if (kind and k != kind) or (val is not None and v != val):
            raise ValueError(f"expected {kind} {val}, got {k} {v}")
        self.i += 1
        return v

    def value(self):
        k, v = self.peek()
        if k == 'str' or k == 'num':
            self.i += 1
            return v
        if k == 'id':
            self.i += 1
            if v == 'TRUE':
                return True
            if v == 'FALSE':
                return False
            return ('mv', v)  # model value
        if v == '<<':
            self.i += 1
            out = []
            while self.peek()[1] != '>>':
                out.append(self.value())
                if self.peek()[1] == ',':
                    self.i += 1
            self.eat('op', '>>')
            return tuple(out)
        if v == '{':
            self.i += 1
            out = []
            while self.peek()[1] != '}':
                out.append(self.value())
                if self.peek()[1] == ',':
                    self.i += 1
            self.eat('op', '}')
            return frozenset(out)
        if v == '[':
            self.i += 1
            rec = {}
            while self.peek()[1] != ']':
                name = self.eat('id')
                self.eat('op', '|->')
                rec[name] = self.value()
                if self.peek()[1] == ',':
                    self.i += 1
            self.eat('op', ']')
            return rec
        if v == '(':
            self.i += 1
            fn = {}
            while True:
                key = self.value()
                self.eat('op', ':>')
                fn[key] = self.value()
                if self.peek()[1] == '@@':
                    self.i += 1
                    continue
                break
            self.eat('op', ')')
            return fn
        raise ValueError(f"unexpected token {k} {v}")


def parse_value(s):
    p = _P(_tokens(s))
    v = p.value()
    if p.i != len(p.t):
        raise ValueError("trailing tokens in " + s)
    return v


def parse_state(label):
    """label: '/\\ a = 1\n/\\ b = <<>>' (possibly multi-line values)"""
    parts = re.split(r'(?:^|\n)/\\ ', label.strip())
    st = {}
    for part in parts:
        if not part.strip():
            continue
        name, val = part.split(' = ', 1)
        st[name.strip()] = parse_value(val)
    return st


_NODE = re.compile(r'^(-?\d+) \[label="((?:[^"\\]|\\.)*)"')
_EDGE = re.compile(r'^(-?\d+) -> (-?\d+) \[label="((?:[^"\\]|\\.)*)"')


def parse_dot(path):
    nodes, edges, init = {}, [], []
    for line in open(path):
        m = _EDGE.match(line)
        if m:
            edges.append((m.group(1), m.group(2), m.group(3).replace('\\"', '"')))
            continue
        m = _NODE.match(line)
        if m:
            lab = m.group(2).replace('\\n', '\n').replace('\\"', '"').replace('\\\\', '\\')
            nodes[m.group(1)] = parse_state(lab)
            if 'style = filled' in line:
                init.append(m.group(1))
    return nodes, edges, init
