"""CLI: ./check C17 --tier quick|thorough  |  ./check C17 --replay file  |  ./check selftest"""
import argparse
import importlib
import json
import os
import sys
import traceback

sys.path.insert(0, os.path.dirname(os.path.dirname(os.path.abspath(__file__))))

from harness.legs import Work  # noqa: E402
from harness.report import Report  # noqa: E402
from harness.tlc import TLCError  # noqa: E402


def main():
    ap = argparse.ArgumentParser()
    ap.add_argument("pid")
    ap.add_argument("--tier", default=os.environ.get("VERIF_TIER", "quick"), choices=["quick", "thorough"])
    ap.add_argument("--replay")
    a = ap.parse_args()
    seed = int(os.environ.get("VERIF_SEED", "0") or 0)
    if a.pid == "selftest":
        from harness import selftest
        return selftest.main()
    pid = a.pid.upper()
    import haiway
    src = os.path.dirname(os.path.dirname(os.path.abspath(haiway.__file__)))
    mod = importlib.import_module(f"props.{pid.lower()}")
    if a.replay:
        rec = json.load(open(a.replay))
        print(f"[{pid}] replaying {a.replay} against {src}")
        mod.replay(Report(pid, rec.get("tier", "quick"), rec.get("seed", 0)), rec)
        return 0
    rep = Report(pid, a.tier, seed)
    rep.log(f"tier={a.tier} seed={seed} haiway from {src}")
    try:
        with Work() as work:
            return mod.run(rep, work, a.tier, seed)
    except TLCError as e:
        if rep.violations:   # violations already reported stand; the rest of the run could not be completed
            print(f"[{pid}] run aborted after reporting violations: {str(e)[:300]}", file=sys.stderr)
            rep.finish()
            return 1
        print(f"[{pid}] MACHINERY FAILURE: {e}", file=sys.stderr)
        return 2
    except Exception:
        traceback.print_exc()
        if rep.violations:
            print(f"[{pid}] run aborted after reporting violations (unexpected exception)", file=sys.stderr)
            rep.finish()
            return 1
        print(f"[{pid}] MACHINERY FAILURE (unexpected exception)", file=sys.stderr)
        return 2


if __name__ == "__main__":
    sys.exit(main())
