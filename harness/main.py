"""CLI: ./check C17 --tier quick|thorough  |  ./check C17 --replay file  |  ./check selftest"""
import argparse
import importlib
import json
import os
import sys
import traceback

sys.path.insert(0, os.path.dirname(os.path.dirname(os.path.abspath(__file__))))

from harness.legs import Work  # noqa: E402
from harness.report import Report  # noqa: E402
from harness.tlc import TLCError  # noqa: E402


def opt_pass(rep, pid, tier):
    """the same check once more in an interpreter started with -O, restricted to its cheap implementation-facing legs;
    its violations count as violations of this run"""
    import subprocess
    mod = importlib.import_module(f"props.{pid.lower()}")
    if not getattr(mod, "OPT_PASS", True) or os.environ.get("VERIF_NO_OPT") == "1":
        return
    env = dict(os.environ, VERIF_OPT="1", VERIF_TIER="quick")
    r = subprocess.run([sys.executable, "-O", "-X", "faulthandler", os.path.abspath(__file__), pid, "--tier", "quick"],
                       env=env, capture_output=True, text=True, timeout=3000)
    summary = None
    for line in r.stdout.splitlines():
        if line.startswith("OPT-SUMMARY "):
            summary = json.loads(line[len("OPT-SUMMARY "):])
        elif line.startswith("VIOLATION "):
            path = line.split("replay=", 1)[1].strip()
            try:
                rec = json.load(open(path))
            except Exception:  # noqa: BLE001
                rec = dict(why="violation in the optimised pass")
            rec["why"] = "[python -O] " + str(rec.get("why", ""))
            rep.violations.append((rec, path))
            print(line, flush=True)
        elif line.startswith(f"[{pid}]"):
            print(line.replace(f"[{pid}]", f"[{pid} -O]", 1), flush=True)
    if summary is None:
        # the optimised pass could not be completed (its own machinery failed - typically because the implementation
        # produced observations of a shape the trace specification cannot even compare): that is no verdict; the ordinary
        # legs that follow look at the same behaviour and report it properly
        rep.log(f"optimised pass did not complete (rc={r.returncode}) - not counted; the ordinary legs follow")
        rep.extra["optimised_pass"] = dict(completed=False, rc=r.returncode, tail=(r.stdout[-600:] + r.stderr[-600:]))
        return
    rep.extra["optimised_pass"] = summary


def main():
    ap = argparse.ArgumentParser()
    ap.add_argument("pid")
    ap.add_argument("--tier", default=os.environ.get("VERIF_TIER", "quick"), choices=["quick", "thorough"])
    ap.add_argument("--replay")
    a = ap.parse_args()
    seed = int(os.environ.get("VERIF_SEED", "0") or 0)
    if a.pid == "selftest":
        from harness import selftest
        return selftest.main()
    pid = a.pid.upper()
    import haiway
    src = os.path.dirname(os.path.dirname(os.path.abspath(haiway.__file__)))
    mod = importlib.import_module(f"props.{pid.lower()}")
    if a.replay:
        rec = json.load(open(a.replay))
        print(f"[{pid}] replaying {a.replay} against {src}")
        mod.replay(Report(pid, rec.get("tier", "quick"), rec.get("seed", 0)), rec)
        return 0
    rep = Report(pid, a.tier, seed)
    if os.environ.get("VERIF_OPT") == "1":
        rep.log(f"optimised pass (python -O: assertions stripped, __debug__ False) tier={a.tier}")
    else:
        rep.log(f"tier={a.tier} seed={seed} haiway from {src}")
        opt_pass(rep, pid, a.tier)
    try:
        with Work() as work:
            return mod.run(rep, work, a.tier, seed)
    except TLCError as e:
        if rep.violations:   # violations already reported stand; the rest of the run could not be completed
            print(f"[{pid}] run aborted after reporting violations: {str(e)[:300]}", file=sys.stderr)
            rep.finish()
            return 1
        print(f"[{pid}] MACHINERY FAILURE: {e}", file=sys.stderr)
        return 2
    except Exception:
        traceback.print_exc()
        if rep.violations:
            print(f"[{pid}] run aborted after reporting violations (unexpected exception)", file=sys.stderr)
            rep.finish()
            return 1
        print(f"[{pid}] MACHINERY FAILURE (unexpected exception)", file=sys.stderr)
        return 2


if __name__ == "__main__":
    sys.exit(main())
