"""Observer for the guarded verification hooks of haiway.utils.queue (HAIWAY_VERIF=1): turns what real AsyncQueue
objects do - in the repository's own tests, in programs on a real asyncio loop - into traces for QueueTrace.tla.

One trace per queue object.  Elements are identified by the order in which they were accepted (the specification's
elements are ordinals); a delivered element is matched to the first accepted, not yet delivered element that is the
same object (else equal).  A receive that ends cancelled is logged as CancelRequest followed by Wake: the library cannot
see when the cancellation was requested, and for the observations it makes no difference (DESIGN.md 3.5).

Also usable as a pytest plugin:  pytest -p harness.qhook  with QHOOK_OUT=<file> writes the traces at session end.
"""
import asyncio
import json
import os


def _kind(reason):
    if reason is None or isinstance(reason, StopAsyncIteration):
        return "stop"
    if isinstance(reason, asyncio.CancelledError):
        return "cancel"
    return "err"


class QueueTracer:
    def __init__(self):
        self.q = {}       # id(queue) -> state
        self.order = []   # ids in creation order

    def _state(self, queue):
        st = self.q.get(id(queue))
        if st is None:
            # a queue created before the observer was installed: cannot be traced from its beginning
            st = self.q[id(queue)] = dict(events=None, undelivered=[], next=1)
        return st

    def _deliver(self, st, element):
        und = st["undelivered"]
        for i, (o, e) in enumerate(und):
            if e is element:
                del und[i]
                return o
        for i, (o, e) in enumerate(und):
            try:
                if e == element:
                    del und[i]
                    return o
            except Exception:  # noqa: BLE001
                pass
        return -1  # something that was never accepted

    def __call__(self, queue, event, *d):
        try:
            self._on(queue, event, *d)
        except Exception:  # noqa: BLE001  - the observer never disturbs the program it observes
            pass

    def _on(self, queue, event, *d):
        if event == "init":
            st = self.q[id(queue)] = dict(events=[dict(ev="Init", n=len(d[0]))], undelivered=[], next=1)
            self.order.append(id(queue))
            for e in d[0]:
                st["undelivered"].append((st["next"], e))
                st["next"] += 1
            return
        st = self._state(queue)
        if st["events"] is None:
            return
        fin = bool(queue.is_finished)
        ev = st["events"]
        if event == "enqueue":
            elems, outcome = d
            if outcome == "ok":
                for e in elems:
                    st["undelivered"].append((st["next"], e))
                    st["next"] += 1
            ev.append(dict(ev="Enqueue", n=len(elems), res=["enqueue", len(elems), outcome], fin=fin))
        elif event == "finish":
            r = _kind(d[0])
            ev.append(dict(ev="Finish", r=r, res=["finish", r], fin=fin))
        elif event == "recv":
            if d[0] == "val":
                ev.append(dict(ev="StartReceive", res=["recv", "val", self._deliver(st, d[1])], fin=fin))
            elif d[0] == "exc":
                ev.append(dict(ev="StartReceive", res=["recv", "exc", _kind(d[1])], fin=fin))
            else:
                ev.append(dict(ev="StartReceive", res=["recv", "suspended"], fin=fin))
        elif event == "wake":
            if d[0] == "val":
                ev.append(dict(ev="Wake", res=["wake", "val", self._deliver(st, d[1])], fin=fin))
            elif d[0] == "exc":
                ev.append(dict(ev="Wake", res=["wake", "exc", _kind(d[1])], fin=fin))
            else:
                ev.append(dict(ev="CancelRequest", res=["cancelreq"], fin=fin))
                ev.append(dict(ev="Wake", res=["wake", "cancelled", 0], fin=fin))

    def traces(self, min_events=2):
        out = []
        for i in self.order:
            ev = self.q[i]["events"]
            if ev and len(ev) >= min_events:
                out.append(ev)
        return out


_TRACER = None


def install():
    """install a fresh tracer as the library's observer; returns it (None when the hooks are not compiled in / enabled)"""
    global _TRACER
    import haiway.utils.queue as qm
    if not getattr(qm, "_VERIF", False) or not hasattr(qm, "_verif_observer"):
        return None
    _TRACER = qm._verif_observer = QueueTracer()
    return _TRACER


def uninstall():
    import haiway.utils.queue as qm
    if hasattr(qm, "_verif_observer"):
        qm._verif_observer = None


# ---- pytest plugin
def pytest_sessionstart(session):
    install()


def pytest_sessionfinish(session, exitstatus):
    out = os.environ.get("QHOOK_OUT")
    if out and _TRACER is not None:
        with open(out, "w") as f:
            json.dump(_TRACER.traces(), f)
    uninstall()
