"""The three legs shared by all property checks: M (TLC), R (graph replay), T (trace validation)."""
import json
import os
import re
import shutil
import tempfile
import time

from . import tlc
from .graph import Graph
from .tlc import TLCError
from .walk import walk_sharded

NPROC = int(os.environ.get("VERIF_NPROC", "16"))


class Work:
    """per-run scratch directory outside /repo and /verif, removed on exit"""

    def __init__(self):
        self.dir = None

    def __enter__(self):
        self.dir = tempfile.mkdtemp(prefix="haiway_verif_")
        return self

    def __exit__(self, *a):
        shutil.rmtree(self.dir, ignore_errors=True)
        return False

    def path(self, name):
        return os.path.join(self.dir, name)


def cfg_text(constants=None, init="Init", next_="Next", spec=None, invariants=(), properties=(),
             constraints=(), action_constraints=(), view=None, symmetry=None, deadlock=False,
             postcondition=None, alias=None):
    lines = []
    if spec:
        lines.append(f"SPECIFICATION {spec}")
    else:
        lines += [f"INIT {init}", f"NEXT {next_}"]
    if constants:
        lines.append("CONSTANTS")
        for k, v in constants.items():
            if isinstance(v, str) and v.startswith("<-"):
                lines.append(f"  {k} {v}")
            elif isinstance(v, str):
                lines.append(f'  {k} = "{v}"')
            elif isinstance(v, bool):
                lines.append(f"  {k} = {'TRUE' if v else 'FALSE'}")
            elif isinstance(v, (set, frozenset, list, tuple)):
                inner = ", ".join(f'"{x}"' if isinstance(x, str) else str(x) for x in v)
                lines.append(f"  {k} = {{{inner}}}")
            else:
                lines.append(f"  {k} = {v}")
    for i in invariants:
        lines.append(f"INVARIANT {i}")
    for p in properties:
        lines.append(f"PROPERTY {p}")
    for c in constraints:
        lines.append(f"CONSTRAINT {c}")
    for c in action_constraints:
        lines.append(f"ACTION_CONSTRAINT {c}")
    if view:
        lines.append(f"VIEW {view}")
    if symmetry:
        lines.append(f"SYMMETRY {symmetry}")
    if postcondition:
        lines.append(f"POSTCONDITION {postcondition}")
    if alias:
        lines.append(f"ALIAS {alias}")
    lines.append(f"CHECK_DEADLOCK {'TRUE' if deadlock else 'FALSE'}")
    return "\n".join(lines) + "\n"


# The OPTIMISED pass (VERIF_OPT=1, the interpreter started with -O so that `assert` statements are stripped and
# `__debug__` is False): the library must behave the same without its assertions.  Only the legs that exercise the
# implementation cheaply run then - trace validation of random programs (leg T) and the replay legs marked `opt=True`.
OPT = os.environ.get("VERIF_OPT") == "1"


def leg_m(rep, work, spec, name, cfg, expect_actions=(), workers=NPROC, timeout=1800, heap="8g"):
    """exhaustive model check; the spec (design) must satisfy its properties and not be vacuous"""
    if OPT:
        return None
    p = tlc.write_cfg(cfg, work.dir, f"{spec}_{name}.cfg")
    res = tlc.run(spec, p, workers=workers, coverage=True, timeout=timeout, heap=heap)
    if not res.ok:
        raise TLCError(f"design model {spec}/{name} violates {res.kind} {res.name} - the specification itself "
                       f"is wrong, nothing about haiway is concluded:\n" +
                       "\n".join(f"  {l}" for l, s in res.trace[-12:]) + "\n  last state: " +
                       (res.trace[-1][1].replace("\n", " ")[:1500] if res.trace else ""))
    missing = [a for a in expect_actions if res.coverage.get(a, (0, 0))[1] == 0]
    if missing:
        raise TLCError(f"vacuous model {spec}/{name}: actions never taken: {missing}")
    rep.add_model(f"{spec}/{name}", res)
    rep.log(f"leg M {spec}/{name}: {res.distinct} distinct states, {res.generated} transitions, "
            f"depth {res.depth}, {res.wall:.1f}s - all invariants/properties hold")
    return res


def leg_mutant(rep, work, spec, name, cfg, expect, workers=NPROC, timeout=600):
    """a seeded design mutant must be rejected by the named property"""
    if OPT:
        return None
    p = tlc.write_cfg(cfg, work.dir, f"{spec}_{name}.cfg")
    res = tlc.run(spec, p, workers=workers, timeout=timeout)
    if res.ok:
        raise TLCError(f"design mutant {spec}/{name} not rejected - the properties have no teeth")
    names = expect if isinstance(expect, (list, tuple, set)) else [expect]
    if res.name not in names and res.kind not in names:
        raise TLCError(f"design mutant {spec}/{name} rejected by {res.kind} {res.name}, expected {expect}")
    rep.extra.setdefault("design_mutants_rejected", []).append(f"{spec}/{name}: {res.kind} {res.name}")
    rep.log(f"leg M mutant {name}: rejected by {res.kind} {res.name} ({len(res.trace)}-state counterexample)")
    return res


def leg_r(rep, work, spec, name, cfg, driver_factory, internal=(), nproc=NPROC, max_len=80,
          budget_s=None, kf_text=None, timeout=1800, obs_var="obs", edge_filter=None, require_full=True,
          kf_classify=None, world=False, opt=False):
    """dump the conformance graph and replay every edge into the real code.  world=True: the driver is built on the
    gated interpreter; in the thorough tier the replay is then repeated with the ready handles of each instant run in a
    seeded random order (VERIF_SCHEDULE=random) - outcomes must not depend on it"""
    if OPT and not opt:
        return None
    if world and rep.tier == "thorough" and os.environ.get("VERIF_SCHEDULE") is None and not name.endswith("_rnd") and not OPT:
        first = leg_r(rep, work, spec, name, cfg, driver_factory, internal, nproc, max_len, budget_s, kf_text, timeout,
                      obs_var, edge_filter, require_full, kf_classify, world=False)
        os.environ["VERIF_SCHEDULE"] = "random"
        try:
            leg_r(rep, work, spec, name + "_rnd", cfg, driver_factory, internal, nproc, max_len, budget_s, kf_text,
                  timeout, obs_var, edge_filter, require_full, kf_classify, world=False)
        finally:
            del os.environ["VERIF_SCHEDULE"]
        return first
    p = tlc.write_cfg(cfg, work.dir, f"{spec}_{name}.cfg")
    dump = work.path(f"{spec}_{name}_graph")
    t0 = time.time()
    res = tlc.run(spec, p, workers=min(NPROC, 8), dump=dump, timeout=timeout)
    if not res.ok:
        raise TLCError(f"conformance model {spec}/{name} violates {res.kind} {res.name}:\n" +
                       "\n".join(f"  {l}: {s[:300]}" for l, s in res.trace[-8:]))
    t1 = time.time()
    g = Graph(dump + ".dot", obs_var=obs_var)
    os.unlink(dump + ".dot")
    t2 = time.time()
    if kf_classify is not None or g.nondeterministic(internal):
        nproc = 1  # successor sets: one walker discovers everything the implementation reaches (see walk.py, phase 2)
    st, samples, violations = walk_sharded(g, driver_factory, nproc=nproc, internal=internal,
                                           max_len=max_len, budget_s=budget_s, edge_filter=edge_filter)
    t3 = time.time()
    rep.add_model(f"{spec}/{name} (conformance graph)", res)
    st["graph_states"] = len(g.raw)
    st["cfg"] = f"{spec}/{name}"
    st["timing_s"] = dict(tlc_dump=round(t1 - t0, 1), parse=round(t2 - t1, 1), replay=round(t3 - t2, 1))
    rep.extra.setdefault("replay", []).append(st)
    rep.traces += st["runs"]
    rep.samples += [dict(leg="R", cfg=f"{spec}/{name}", behaviour=s) for s in samples[:2]]
    rep.log(f"leg R {spec}/{name}: graph {len(g.raw)} states / {st['edges_total']} edges; covered "
            f"{st['edges_covered']} (+{st['edges_alternative']} alt, {st['edges_uncovered']} left) in "
            f"{st['runs']} runs / {st['steps']} impl steps; dump {t1 - t0:.1f}s parse {t2 - t1:.1f}s replay {t3 - t2:.1f}s")
    cases = st.pop("known_finding_cases", [])
    if kf_classify is not None:
        # the property module turns (action, differing fields, scenario) into listed finding ids; a deviation
        # that matches no listed finding is a violation
        from .report import known_findings
        listed = {k.get("id") for k in known_findings(rep.pid)}
        seen = {}
        for c in cases:
            fid = kf_classify(c)
            if fid is not None and not set(fid if isinstance(fid, (list, tuple)) else [fid]) <= listed:
                fid = None  # only findings listed in known_findings.json may be reported as known
            if fid is None:
                rep.violation(dict(leg="R", spec=spec, cfg=name, why="deviation not covered by any listed known finding",
                                   action=c["action"], observed=c["observed"], expected=[c["intended"]],
                                   path=c["path"], init=c["init"], diff=c["diff"]), tag="R")
            else:
                for f in (fid if isinstance(fid, (list, tuple)) else [fid]):
                    seen[f] = seen.get(f, 0) + 1
        for f, n in sorted(seen.items()):
            rep.known(f, (kf_text or {}).get(f, "") + f" ({n} distinct cases in replay)")
    else:
        for kid, n in st["known_finding_hits"].items():
            rep.known(kid, (kf_text or {}).get(kid, "") + f" (met {n}x in replay)")
    for v in violations[:5]:
        rep.violation(dict(leg="R", spec=spec, cfg=name, **v), tag="R")
    if not violations and st["edges_uncovered"] and require_full and not budget_s:
        raise TLCError(f"replay of {spec}/{name} left {st['edges_uncovered']} reachable edges uncovered")
    return st


def leg_apalache(rep, work, module, obligations, timeout=600):
    """unbounded obligations on a small typed module, discharged by Apalache's bounded checker used inductively:
    obligations = [(name, init predicate, invariant, length)], e.g. ("step", "IndInv", "IndInv", 1).  A failed obligation
    is a failure of the specification (exit 2), nothing about haiway."""
    import shutil as _sh
    import subprocess
    if OPT:
        return None
    if _sh.which("apalache-mc") is None:
        rep.log(f"leg A {module}: apalache-mc not available - skipped")
        return None
    out = []
    for name, init, inv, length in obligations:
        t0 = time.time()
        r = subprocess.run(["apalache-mc", "check", f"--init={init}", f"--inv={inv}", f"--length={length}",
                            f"--out-dir={work.path('apalache')}", os.path.join(tlc.SPECS, module + ".tla")],
                           capture_output=True, text=True, timeout=timeout, cwd=work.dir)
        ok = "EXITCODE: OK" in r.stdout
        out.append(dict(obligation=name, init=init, inv=inv, length=length, ok=ok, wall_s=round(time.time() - t0, 1)))
        if not ok:
            raise TLCError(f"Apalache obligation {module}/{name} ({init} => {inv}, length {length}) failed - the "
                           f"specification itself is wrong, nothing about haiway is concluded:\n" + r.stdout[-1500:])
    rep.log(f"leg A {module}: " + ", ".join(f"{o['obligation']} ok ({o['wall_s']}s)" for o in out)
            + " - proved for unbounded parameters (Apalache, inductive)")
    rep.extra.setdefault("apalache", []).append(dict(module=module, obligations=out))
    return out


def tlc_values(out, prefixes):
    """values printed by PrintT, possibly wrapped over several lines: collect until brackets balance"""
    acc, depth = None, 0
    for line in out.splitlines():
        st = line.strip()
        if acc is None:
            if not st.replace(" ", "").startswith(tuple(prefixes)):
                continue
            acc, depth = [], 0
        acc.append(st)
        in_str = False
        i = 0
        while i < len(st):
            ch = st[i]
            if in_str:
                if ch == "\\":
                    i += 1
                elif ch == '"':
                    in_str = False
            elif ch == '"':
                in_str = True
            elif st.startswith("<<", i) or ch in "[{(":
                depth += 1
                i += 1 if st.startswith("<<", i) else 0
            elif st.startswith(">>", i) or ch in "]})":
                depth -= 1
                i += 1 if st.startswith(">>", i) else 0
            i += 1
        if depth <= 0:
            yield " ".join(acc)
            acc = None


_RE_VERDICT = re.compile(r'<<"(ACCEPT|MISMATCH|STUCK|DONE)"(?:, (.*))?>>')


def gen_traces(rep, fn, n):
    """call the random driver n times; a driver that cannot go on - the real system is in a state its own bookkeeping
    says is impossible - is a divergence of the implementation, reported as such"""
    import traceback as tb
    out = []
    failures = 0
    for _ in range(n):
        try:
            out.append(fn())
        except Exception as e:  # noqa: BLE001
            failures += 1
            if failures <= 2:
                rep.violation(dict(leg="T", why="the random driver could not continue: the implementation left the envelope "
                                   "of behaviours the driver mirrors", detail=f"{type(e).__name__}: {e}",
                                   traceback=tb.format_exc()[-1500:]), tag="T")
    return out


def leg_t_gen(rep, work, mod, name, traces, variables, constants, config_vars, actions, internal=None, quiet=None,
              invariants=(), timeout=1800, init="Init"):
    """leg T through a generated trace module (harness/tracegen.py): the module is written to the scratch directory,
    next to links to the hand-written specifications it instantiates"""
    from . import tracegen
    if '"?"' in json.dumps(traces):
        # a probe component could not be read (it degraded to the wildcard): TLC cannot compare it; the edge replay
        # (which understands the wildcard) still ran - skip trace validation instead of raising a false alarm
        rep.log(f"leg T {mod}/{name}: skipped - observations contain the wildcard '?' (an unreadable probe component)")
        rep.extra.setdefault("trace_validation", []).append(dict(cfg=f"{mod}/{name}", skipped="wildcard in observations"))
        return {}
    for f in os.listdir(tlc.SPECS):
        if f.endswith(".tla") and not os.path.exists(work.path(f)):
            os.symlink(os.path.join(tlc.SPECS, f), work.path(f))
    gen = tracegen.generate(work.dir, mod, variables, constants, config_vars, actions, internal, quiet, invariants,
                            init=init)
    cfg = cfg_text(None, spec="TraceSpec", invariants=[f"Inv_{i}" for i in invariants], constraints=["Track"],
                   postcondition="Report")
    return leg_t(rep, work, gen, name, cfg, traces, timeout=timeout, cwd=work.dir)


def leg_t(rep, work, spec, name, cfg, traces, decode=None, timeout=1800, heap="8g", kf_of=None, cwd=None):
    """validate traces recorded from the real code against the trace specification (one TLC run)"""
    from . import tlaval
    tf = work.path(f"{spec}_{name}_traces.json")
    with open(tf, "w") as f:
        json.dump(traces, f)
    p = tlc.write_cfg(cfg, work.dir, f"{spec}_{name}.cfg")
    try:
        res = tlc.run(spec, p, workers=1, timeout=timeout, heap=heap, env={"TRACE_FILE": tf}, cwd=cwd)
    except TLCError as e:
        if "Attempted to" in str(e) or "cannot be compared" in str(e) or "not enumerable" in str(e):
            # an observation outside the vocabulary of the specification (wrong type / shape): no successor state
            # can equal it, so this is a divergence of the implementation, not a verdict we can localise
            rep.violation(dict(leg="T", spec=spec, cfg=name, why="a recorded observation has a shape the specification "
                               "never produces (TLC could not compare it)", detail=str(e)[-1500:], trace=traces[0][:5]), tag="T")
            return {}
        if "TLC was evaluating the nested" in str(e):
            # TLC could not even EVALUATE the specification's action on a recorded step (an index or key the observation
            # carries lies outside what the specification's state holds): the recorded execution left the vocabulary of
            # the specification in the middle of a trace - a divergence, localised by the trace id of the last state
            import re as _re
            m = _re.findall(r"\btid = (\d+)", str(e))
            tid = int(m[-1]) if m else 1
            rep.violation(dict(leg="T", spec=spec, cfg=name, why="the specification's action cannot be evaluated on a recorded "
                               "step: the observation refers to something the specification's state does not hold",
                               detail=str(e)[-1500:], trace=traces[min(tid, len(traces)) - 1]), tag="T")
            return {}
        raise
    verdicts = {}
    for text in tlc_values(res.out, ('<<"ACCEPT"', '<<"MISMATCH"', '<<"STUCK"')):
        v = tlaval.parse_value(text)
        verdicts[v[1]] = v
    done = '<<"DONE"' in res.out
    if not done:
        if not res.ok and res.kind in ("invariant", "action_property"):
            # an invariant of the design failed on an observed execution
            rep.violation(dict(leg="T", spec=spec, cfg=name, why=f"{res.kind} {res.name} violated on an observed "
                               f"execution", trace_states=[f"{l}: {s[:400]}" for l, s in res.trace[-6:]]), tag="T")
            return verdicts
        raise TLCError(f"trace validation {spec}/{name} did not complete:\n{res.out[-3000:]}")
    if len(verdicts) != len(traces):
        raise TLCError(f"trace validation {spec}/{name}: {len(verdicts)} verdicts for {len(traces)} traces")
    bad = [v for v in verdicts.values() if v[0] != "ACCEPT"]
    rep.states += res.distinct
    rep.transitions += res.generated
    rep.traces += len(traces)
    nev = sum(len(t) for t in traces)
    rep.extra.setdefault("trace_validation", []).append(
        dict(cfg=f"{spec}/{name}", traces=len(traces), events=nev, rejected=len(bad), tlc_states=res.distinct,
             wall_s=round(res.wall, 1)))
    rep.samples.append(dict(leg="T", cfg=f"{spec}/{name}", trace=traces[0][:12]))
    rep.log(f"leg T {spec}/{name}: {len(traces)} traces / {nev} events validated in {res.wall:.1f}s, "
            f"{len(bad)} rejected")
    reported = 0
    for v in sorted(bad, key=lambda v: v[1]):
        tid = v[1]
        rec = dict(leg="T", spec=spec, cfg=name, why=f"trace rejected: {v[0]}", verdict=list(v),
                   trace=traces[tid - 1])
        kid = kf_of(v, traces[tid - 1]) if kf_of else None
        if kid:
            rep.known(kid[0], kid[1])
            continue
        if reported < 5:
            rep.violation(rec, tag="T")
        reported += 1
    return verdicts
