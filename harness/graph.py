"""TLC state graph (dot dump with action labels), parsed lazily."""
import re

from . import tlaval

_NODE = re.compile(r'^(-?\d+) \[label="((?:[^"\\]|\\.)*)"')
_EDGE = re.compile(r'^(-?\d+) -> (-?\d+) \[label="((?:[^"\\]|\\.)*)"')
_LABEL = re.compile(r'^(\w+)(?:\((.*)\))?$', re.S)


def _unescape(s):
    return s.replace('\\n', '\n').replace('\\"', '"').replace('\\\\', '\\')


def parse_label(label):
    """'Enqueue(1, "a")' -> ('Enqueue', (1, 'a'))"""
    m = _LABEL.match(label.strip())
    if not m:
        raise ValueError("bad action label " + label)
    name, args = m.group(1), m.group(2)
    if args is None or args.strip() == "":
        return name, ()
    return name, tlaval.parse_value("<<" + args + ">>")


class Graph:
    def __init__(self, path, obs_var="obs"):
        self.raw = {}  # node id -> raw label text
        self.out = {}  # node id -> {label: [node ids]}
        self.inits = []
        self.n_edges = 0
        self.obs_var = obs_var
        self._obs = {}
        self._state = {}
        self._lab = {}
        self._obs_re = re.compile(r'(?:^|\n)/\\ ' + re.escape(obs_var) + r' = (.*?)(?=\n/\\ |\Z)', re.S)
        seen = set()
        with open(path) as f:
            for line in f:
                if ' -> ' in line[:48]:
                    m = _EDGE.match(line)
                    if m:
                        u, v, lab = m.group(1), m.group(2), _unescape(m.group(3))
                        key = (u, lab, v)
                        if key in seen:
                            continue
                        seen.add(key)
                        self.out.setdefault(u, {}).setdefault(lab, []).append(v)
                        self.n_edges += 1
                        continue
                m = _NODE.match(line)
                if m:
                    nid = m.group(1)
                    self.raw[nid] = _unescape(m.group(2))
                    if 'style = filled' in line[m.end():m.end() + 40] or line.rstrip().endswith('style = filled]'):
                        self.inits.append(nid)
        for n in self.raw:
            self.out.setdefault(n, {})

    def label(self, lab):
        r = self._lab.get(lab)
        if r is None:
            r = self._lab[lab] = parse_label(lab)
        return r

    def obs(self, n):
        o = self._obs.get(n)
        if o is None:
            m = self._obs_re.search(self.raw[n])
            if not m:
                raise KeyError(f"no variable {self.obs_var} in state {n}")
            o = self._obs[n] = tlaval.parse_value(m.group(1))
        return o

    def state(self, n):
        s = self._state.get(n)
        if s is None:
            s = self._state[n] = tlaval.parse_state(self.raw[n])
        return s

    def nondeterministic(self, internal=()):
        """does some state have several successors for one controlled action instance?"""
        from .walk import base_name
        internal = set(internal)
        for u, d in self.out.items():
            seen = {}
            for lab, vs in d.items():
                name, args = self.label(lab)
                if name in internal:
                    continue
                key = (base_name(name), args)
                seen[key] = seen.get(key, 0) + len(set(vs))
                if seen[key] > 1:
                    return True
        return False

    def edges(self):
        for u, d in self.out.items():
            for lab, vs in d.items():
                for v in vs:
                    yield (u, lab, v)
