"""Gated interpreter of scope programs on the virtual loop.

Every task of a program is an `asyncio.Task` running `World.run_task`, which suspends on a *gate*
future owned by the driver between any two operations.  The driver opens a gate with an operation
(enter a scope, leave it, spawn, probe, record ...) and lets the loop run to quiescence, so the
library's own suspension points (disposables, task-group exit, ...) are reachable as quiescent
states in which another task's step or a cancellation can be injected.

Only the public API of haiway is used, with one exception: the identity of the current task group
(`TaskGroupContext._context`), which degrades to the wildcard "?" if it cannot be read.
"""
import asyncio
import sys
import logging
from typing import Any
import os
import random

from haiway import MISSING, Missing, MissingContext, MissingState, State, ctx

from harness.vloop import VClock, VLoop

ANY = "?"


def _quiet_unraisable(unraisable):
    """ScopeMetrics.__del__ / AsyncQueue.__del__ assert at garbage collection time when the harness tears a
    world down mid-program; that is teardown noise, not an observation"""
    if isinstance(unraisable.exc_value, AssertionError) and "Deinitializing" in str(unraisable.exc_value):
        return
    if isinstance(unraisable.exc_value, AttributeError) and "__del__" in repr(unraisable.object):
        return  # a scope object whose construction was refused half-way (no event loop in a worker thread) is collected
    if isinstance(unraisable.exc_value, (ValueError, RuntimeError)) and \
            type(unraisable.object).__name__ in ("async_generator", "coroutine"):
        return  # finalisation of a generator / coroutine the torn-down world left suspended
    sys.__unraisablehook__(unraisable)


import sys  # noqa: E402
import warnings  # noqa: E402

# a refused ctx.spawn leaves the coroutine object it was handed un-awaited: expected, not an observation
warnings.filterwarnings("ignore", category=RuntimeWarning, message="coroutine .* was never awaited")

sys.unraisablehook = _quiet_unraisable


class _NoTruth:
    """a value whose comparison has no truth value (an array-like): `a == b` is fine, `bool(a == b)` raises"""

    class _Result:
        def __bool__(self):
            raise ValueError("the truth value of this comparison is ambiguous")

    def __eq__(self, other):
        return _NoTruth._Result()

    __ne__ = __eq__
    __hash__ = None


NOTRUTH = _NoTruth()


class A(State):
    v: int = 0
    vec: Any = NOTRUTH      # states are never compared by the library on the user's behalf
    # an attribute that may be left out without having a "real" default: the type still needs no arguments
    note: str | Missing = MISSING


class A2(A):
    pass


class _GB[T](State):
    """a state type whose instances are FALSY (user types may define __bool__ / __len__): supplied is supplied"""

    # required, and a union: default construction fails with whatever the union validator raises (an ExceptionGroup,
    # not a TypeError) - "needs arguments" is a missing-state error whichever way the failure shows
    v: int | None

    def __bool__(self) -> bool:
        return False

    def __iter__(self):
        # ... and ITERABLE (a state may well be a collection of something): one state is one state, not a collection of states
        return iter(())


# B is a SPECIALISATION of a generic state; its sibling specialisation - other type arguments with the same names
# (list[int] / list[str]) - is a different state type that nobody ever supplies
B = _GB[list[int]]
B_SIBLING = _GB[list[str]]
_SIBLING_DEFAULT = B_SIBLING(v=0)
TYPES = {"A": A, "A2": A2, "B": B}
_SUB = {t: type(T)(t + "Default", (T,), {"__module__": __name__}) for t, T in TYPES.items()}
D_DEFAULT, D_MISSING, D_NOCTX, D_EXPLICIT = 91, 92, 93, 94


class Err(Exception):
    def __bool__(self):
        return False

    def __eq__(self, other):
        return isinstance(other, BaseException)     # exceptions that compare equal to each other (identity is what counts)

    def __hash__(self):
        return 19


class Err2(Exception):
    pass

    def __eq__(self, other):
        return isinstance(other, BaseException)     # exceptions that compare equal to each other (identity is what counts)

    def __hash__(self):
        return 19


class Base(BaseException):
    def __bool__(self):
        return False

    def __eq__(self, other):
        return isinstance(other, BaseException)     # exceptions that compare equal to each other (identity is what counts)

    def __hash__(self):
        return 19


_SHARED = {}


def mk(pairs):
    """state instances for (type, value) pairs - the SAME immutable instance every time a pair recurs, across scopes,
    tasks and runs (as module-level constants are used by applications): nothing may depend on instance identity"""
    return [_SHARED.get((t, v)) or _SHARED.setdefault((t, v), _make(TYPES[t], v)) for t, v in pairs]


def _make(cls, v):
    # (every instance has its OWN incomparable attribute value: identity shortcuts do not hide a comparison)
    return cls(v=v, vec=_NoTruth()) if "vec" in getattr(cls, "__annotations__", {}) or any(
        "vec" in getattr(b, "__annotations__", {}) for b in cls.__mro__) else cls(v=v)


class _Capture(logging.Handler):
    def __init__(self):
        super().__init__(level=logging.DEBUG)
        self.records = []

    def emit(self, record):
        self.records.append(record)


class Disp:
    """disposable double: logs enter/exit, yields states, fails or suspends as configured"""

    def __init__(self, world, name, yields=(), enter="ok", exit="ok", shape="list", spawns=None, base=False):
        self.w, self.name, self.yields, self.enter, self.exit, self.shape = world, name, yields, enter, exit, shape
        self.errcls = Base if base else Err   # what a failing __aenter__ / __aexit__ raises: an Exception or a BaseException
        self.spawns = spawns  # name of a task this disposable spawns through the context at the start of __aenter__
        self.n_enter = self.n_exit = 0
        self.exit_arg = None
        self.enter_status = "none"  # none | entering | entered | failed | cancelled
        self.exit_status = "none"

    # disposables may be value objects: all doubles compare equal and hash alike, yet each is its own disposable
    def __eq__(self, other):
        return isinstance(other, Disp)

    def __hash__(self):
        return 13

    async def __aenter__(self):
        self.n_enter += 1
        self.enter_status = "entering"
        if self.spawns is not None:
            self.w.tasks[self.spawns] = ctx.spawn(self.w.run_task, self.spawns)
        try:
            # the disposable works inside a state update of its OWN while it is being entered (each one in its own task,
            # concurrently): it sees its own update throughout, never a sibling's
            mine = 600 + sum(map(ord, self.name)) % 97
            with ctx.updated(_make(A, mine)):
                self._saw("enter", mine)
                if self.enter == "suspend":
                    how = await self.w.gate("de:" + self.name)
                    self._saw("enter", mine)
                    if how == "fail":
                        raise self.w.err_of("enter:" + self.name, self.errcls)
                elif self.enter == "fail":
                    raise self.w.err_of("enter:" + self.name, self.errcls)
        except asyncio.CancelledError:
            self.enter_status = "cancelled"
            raise
        except BaseException:
            self.enter_status = "failed"
            raise
        self.enter_status = "entered"
        states = mk(self.yields)
        if self.shape == "none" or (self.shape == "auto" and not states):
            return None
        if (self.shape in ("single", "auto")) and len(states) == 1:
            return states[0]
        # several states come as ANY iterable: a list, a one-shot generator or a one-shot iterator over a tuple (which of
        # them is a fixed function of the double's configuration, so that a replay reproduces it)
        k = (len(self.enter) + len(self.exit) + sum(map(ord, self.name))) % 3
        return states if k == 0 else (s for s in states) if k == 1 else iter(tuple(states))

    def _saw(self, where, mine):
        try:
            v = ctx.state(A).v
        except Exception as e:  # noqa: BLE001
            v = repr(e)
        if v != mine:
            self.w.disp_errors.append(f"{self.name} saw A={v} inside its own update A={mine} while {where}ing")

    async def __aexit__(self, et, ev, tb):
        self.n_exit += 1
        self.exit_arg = self.w.classify(ev)
        self.exit_status = "exiting"
        try:
            mine = 700 + sum(map(ord, self.name)) % 97
            with ctx.updated(_make(A, mine)):
                self._saw("exit", mine)
                if self.exit == "suspend":
                    how = await self.w.gate("dx:" + self.name)
                    self._saw("exit", mine)
                    if how == "fail":
                        raise self.w.err_of("exit:" + self.name, self.errcls)
                elif self.exit == "fail":
                    raise self.w.err_of("exit:" + self.name, self.errcls)
        except asyncio.CancelledError:
            self.exit_status = "cancelled"
            raise
        except BaseException:
            self.exit_status = "failed"
            raise
        self.exit_status = "exited"
        return None


class World:
    _n = 0

    def __init__(self, types=("A", "B"), start=1000.0, probing=True):
        self.probing = probing
        # VERIF_SCHEDULE=random: ready handles of one instant run in a seeded random order instead of FIFO, so the
        # library is exercised under schedules finer than the model's macro-steps (outcomes must not depend on them)
        self.schedule = os.environ.get("VERIF_SCHEDULE", "fifo")
        self._rnd = random.Random(int(os.environ.get("VERIF_SEED", "0") or 0) + World._n)
        World._n += 1
        self.closing = False
        self.loop = VLoop(start=start)
        self.clock = VClock(self.loop)
        self.clock.__enter__()
        self.types = types
        self.gates = {}  # gate name -> future
        self.tasks = {}  # task name -> asyncio.Task
        self.at = {}  # task name -> last probe published at a gate
        self.events = []  # chronological reports from inside tasks
        self.groups = {}  # id(TaskGroup) -> scope id
        self.errs = {}  # tag -> exception object
        self.disps = {}
        self.completions = []
        self.wills = {}
        self.turns = set()
        if self.schedule == "random":
            self.loop.policy = lambda live: self._rnd.randrange(len(live))
        self.cap = _Capture()
        self.root = logging.getLogger()
        self._root_level = self.root.level
        self.root.addHandler(self.cap)
        self.root.setLevel(logging.DEBUG)
        # the caller's explicit default is an instance of a SUBCLASS of the requested type (a valid T all the same)
        self.explicit = {t: _make(_SUB[t], 77) for t in TYPES}
        self.nprobe = 0
        self.disp_errors = []

    # ---- helpers used from inside tasks
    def err_of(self, tag, cls=Err):
        e = self.errs.get(tag)
        if e is None:
            e = self.errs[tag] = cls(tag)
        return e

    def classify(self, e):
        if e is None:
            return "none"
        for tag, o in self.errs.items():
            if o is e:
                return tag
        if isinstance(e, asyncio.CancelledError):
            return "C"
        if isinstance(e, BaseExceptionGroup):
            inner = sorted(self.classify(x) for x in e.exceptions)
            return "group(" + ",".join(inner) + ")"
        return "foreign:" + type(e).__name__ + ":" + str(e)[:80]

    async def gate(self, name):
        if self.closing:
            raise asyncio.CancelledError()
        fut = self.loop.create_future()
        self.gates[name] = fut
        try:
            return await fut
        finally:
            if self.gates.get(name) is fut:
                del self.gates[name]

    def lookup(self, tname, explicit=False):
        T = TYPES[tname]
        try:
            s = ctx.state(T, default=self.explicit[tname]) if explicit else ctx.state(T)
        except MissingContext:
            return D_NOCTX
        except MissingState:
            return D_MISSING
        if tname == "B":
            try:
                if ctx.state(B_SIBLING, default=_SIBLING_DEFAULT) is not _SIBLING_DEFAULT:
                    return "a sibling specialisation nobody supplied is visible"
            except MissingContext:
                pass
        if s is self.explicit[tname]:
            return D_EXPLICIT
        if type(s) is not T:
            return "wrong-type:" + type(s).__name__
        return D_DEFAULT if s.v == 0 else s.v

    def metrics_label(self):
        """innermost metrics scope through the public API: a probe log line carries the scope prefix"""
        n = len(self.cap.records)
        ctx.log_debug("probe")
        recs = self.cap.records[n:]
        del self.cap.records[n:]
        if not recs:
            return "lost"
        msg = recs[-1].getMessage()
        if msg == "probe":
            return 0
        # the scope tag: however the library renders it, the innermost scope's name appears before the message text;
        # names used by the harness are s<n>, or the name of a wrapped function / generator
        import re
        head = msg[: -len("probe")] if msg.endswith("probe") else msg
        m = re.findall(r"(?<![0-9A-Za-z_])(s\d+|gen|fn|afn|observer)(?![0-9A-Za-z_])", head)
        if m:
            lab = m[-1]
            return int(lab[1:]) if lab[0] == "s" and lab[1:].isdigit() else lab
        return "odd:" + msg[:60]

    @staticmethod
    def _group_var():
        """the context variable holding the current task group - the one non-public read of the harness.  Found by type
        (a ContextVar on TaskGroupContext or in its module), not by name, so that renaming it does not matter; None when
        it cannot be found (the task-group component of the probes then degrades to the wildcard)"""
        import contextvars
        try:
            import haiway.context.tasks as m
        except Exception:  # noqa: BLE001
            return None
        cands = []
        for holder in (getattr(m, "TaskGroupContext", None), m):
            if holder is not None:
                cands += [v for v in vars(holder).values() if isinstance(v, contextvars.ContextVar)]
        return cands[0] if cands else None

    def group_id(self):
        var = self._group_var()
        if var is None:
            return ANY
        try:
            return self.groups.get(id(var.get()), "unknown-group")
        except LookupError:
            return 0

    def probe(self):
        if not self.probing:
            return {}
        p = {}
        # every other probe asks with the explicit default FIRST and plainly afterwards: neither lookup may influence
        # the other (a default-constructed instance must not shadow the explicit default, an explicit default must not
        # be remembered for the plain lookup - here or in any other task that shares the state)
        self.nprobe += 1
        for t in self.types:
            if self.nprobe % 2:
                p[t] = self.lookup(t)
                p[t + "d"] = self.lookup(t, explicit=True)
            else:
                p[t + "d"] = self.lookup(t, explicit=True)
                p[t] = self.lookup(t)
        p["ms"] = self.metrics_label()
        p["tg"] = self.group_id()
        return p

    # ---- the interpreter
    async def run_task(self, name):
        try:
            await self.block(name)
            self.events.append((name, "task_end", "return"))
        except BaseException as e:  # noqa: BLE001
            self.events.append((name, "task_end", self.classify(e)))
            raise
        finally:
            self.at.pop(name, None)

    def _register_group(self, sid):
        try:
            self.groups[id(self._group_var().get())] = sid
        except Exception:  # noqa: BLE001
            pass

    async def block(self, name):
        """interpret operations until a 'leave' op; returns normally or raises"""
        while True:
            self.at[name] = self.probe()
            try:
                op = await self.gate(name)
            except asyncio.CancelledError:
                if name in self.turns and not self.closing:
                    # user code that answers a cancellation with an exception of its own
                    raise Err(f"task {name} turns its cancellation into an error") from None
                # a task with a "will" spawns one more task through the context from its cancellation handler
                chooser = self.wills.pop(name, None)
                child = chooser() if chooser is not None else None  # the heir is chosen when the will is executed
                if child is not None and not self.closing:
                    try:
                        self.tasks[child] = ctx.spawn(self.run_task, child)
                        self.events.append((name, "will", child, "spawned"))
                    except RuntimeError as e:
                        self.events.append((name, "will", child, "refused: " + str(e)[:60]))
                raise
            finally:
                self.at.pop(name, None)
            k = op[0]
            if k == "ascope":
                _, sid, states, disps, completion = op
                label = f"s{sid}"
                before = self.probe()
                try:
                    async with ctx.scope(label, *mk(states), disposables=disps, completion=completion):
                        self._register_group(sid)
                        self.events.append((name, "body", sid))
                        await self.block(name)
                    self.events.append((name, "left", sid, "return", self.probe() == before))
                except BaseException as e:  # noqa: BLE001
                    self.events.append((name, "left", sid, self.classify(e), self.probe() == before))
                    raise
            elif k == "sscope":
                _, sid, states, completion = op
                before = self.probe()
                try:
                    with ctx.scope(f"s{sid}", *mk(states), completion=completion):
                        self.events.append((name, "body", sid))
                        await self.block(name)
                    self.events.append((name, "left", sid, "return", self.probe() == before))
                except BaseException as e:  # noqa: BLE001
                    self.events.append((name, "left", sid, self.classify(e), self.probe() == before))
                    raise
            elif k == "xscope":
                # general form: ("xscope", is_async, sid, label, kwargs) - label / logger / trace_id chosen by the driver
                _, is_async, sid, label, kw = op
                if is_async:
                    async with ctx.scope(label, **kw):
                        self._register_group(sid)
                        await self.block(name)
                else:
                    with ctx.scope(label, **kw):
                        await self.block(name)
            elif k == "update":
                with ctx.updated(*mk(op[1])):
                    await self.block(name)
            elif k == "prepare":
                # the block object is made here and now - and entered later, maybe by another task
                _, kind, sid, states, *rest = op
                label = rest[0] if rest else f"s{sid}"
                kw = rest[1] if len(rest) > 1 else {}
                self.prepared = (kind, sid, ctx.updated(*mk(states)) if kind == "update" else ctx.scope(label, *mk(states), **kw))
            elif k == "enterprep":
                kind, sid, obj = self.prepared
                before = self.probe()
                try:
                    if kind == "ascope":
                        async with obj:
                            self._register_group(sid)
                            self.events.append((name, "body", sid))
                            await self.block(name)
                    else:
                        with obj:
                            self.events.append((name, "body", sid))
                            await self.block(name)
                    self.events.append((name, "left", sid, "return", self.probe() == before))
                except BaseException as e:  # noqa: BLE001
                    self.events.append((name, "left", sid, self.classify(e), self.probe() == before))
                    raise
            elif k == "genenter":
                # a generator holds a state update open across its yields; this task advances it to the first yield (the
                # update is then in force for this task) and closes it when it leaves
                states = op[1]

                async def holder():
                    with ctx.updated(*mk(states)):
                        yield 1
                        yield 2

                self.held = holder()
                await self.held.__anext__()
                try:
                    await self.block(name)
                finally:
                    try:
                        await self.held.aclose()
                    except (ValueError, RuntimeError):
                        pass
            elif k == "genclose":
                # ANOTHER task closes that generator: the update's exit runs here, where it was never entered
                try:
                    await self.held.aclose()
                    self.events.append((name, "try", "foreign-closed"))
                except ValueError:
                    self.events.append((name, "try", "refused"))
            elif k == "reenter":
                # a second attempt to enter the same async scope object (caught by the code that tries)
                kind, sid, obj = self.prepared
                if kind == "update":
                    # an update object that is in use is entered once more: refused - or a block of its own, left later
                    try:
                        obj.__enter__()
                    except Exception:  # noqa: BLE001
                        self.events.append((name, "try", "refused"))
                        continue
                    self.events.append((name, "reentered", sid))
                    try:
                        await self.block(name)
                    except BaseException:
                        if not obj.__exit__(*sys.exc_info()):
                            raise
                    else:
                        obj.__exit__(None, None, None)
                    continue
                try:
                    async with obj:
                        pass
                    self.events.append((name, "try", "reentered"))
                except Exception:  # noqa: BLE001  - refused, however (an assertion, the task group's own RuntimeError)
                    self.events.append((name, "try", "refused"))
            elif k == "try":
                try:
                    await self.block(name)
                    self.events.append((name, "try", "return"))
                except BaseException as e:  # noqa: BLE001  (user code that catches everything)
                    self.events.append((name, "try", self.classify(e)))
                    if self.closing:
                        raise
            elif k == "tryu":
                # like "try", for code that goes on afterwards: a caught cancellation is acknowledged (Task.uncancel),
                # as asyncio.timeout and well-behaved handlers do
                try:
                    await self.block(name)
                    self.events.append((name, "try", "return"))
                except BaseException as e:  # noqa: BLE001
                    self.events.append((name, "try", self.classify(e)))
                    if self.closing:
                        raise
                    if isinstance(e, asyncio.CancelledError):
                        asyncio.current_task().uncancel()
            elif k == "leave":
                how = op[1]
                if how == "return":
                    return
                if how == "E":
                    raise self.err_of(f"body:{name}:{len(self.events)}")
                if how == "BaseE":
                    raise self.err_of(f"bodybase:{name}:{len(self.events)}", Base)
                if how == "C":
                    raise asyncio.CancelledError()      # the body's own (a timeout around it, a cancelled await inside it)
                raise ValueError(how)
            elif k == "spawn":
                child = op[1]
                self.tasks[child] = ctx.spawn(self.run_task, child)
            elif k == "plainspawn":
                child = op[1]
                self.tasks[child] = self.loop.create_task(self.run_task(child))
            elif k == "check":
                try:
                    ctx.check_cancellation()
                    self.events.append((name, "check", False))
                except asyncio.CancelledError:
                    self.events.append((name, "check", True))
            elif k == "ctxcancel":
                ctx.cancel()
            elif k == "call":
                r = op[1]()
                if asyncio.iscoroutine(r):
                    await r
            elif k == "will":
                self.wills[name] = op[1]
            elif k == "turn":
                self.turns.add(name)
            elif k == "nop":
                pass
            else:
                raise ValueError(op)

    # ---- driver side
    def start(self, name):
        self.tasks[name] = self.loop.create_task(self.run_task(name))
        self.loop.quiesce()

    def do(self, name, *op):
        self.gates[name].set_result(op)
        self.loop.quiesce()

    def release(self, gate, how="ok"):
        self.gates[gate].set_result(how)
        self.loop.quiesce()

    def cancel(self, name):
        self.tasks[name].cancel()
        self.loop.quiesce()

    def _is_wakeup_of(self, h, task):
        return getattr(h._callback, "__self__", None) is task

    def then_cancel_late(self, trigger, victim):
        """`trigger()` makes the last thing task `victim` waits for happen; every ready handle EXCEPT the victim's own
        wake-up is run, then the victim is cancelled - between 'what it awaited is complete' and 'it runs again' - and
        the loop runs on.  Returns whether the victim really was about to wake."""
        t = self.tasks[victim]
        trigger()
        self.loop.quiesce_where(lambda h: not self._is_wakeup_of(h, t))
        pending = any(self._is_wakeup_of(h, t) for h in self.loop.live_ready())
        t.cancel()
        self.loop.quiesce()
        return pending

    def status(self, name):
        t = self.tasks.get(name)
        if t is None:
            return "unborn"
        if not t.done():
            return "gate" if name in self.gates else "busy"
        if t.cancelled():
            return "cancelled"
        e = t.exception()
        return "done" if e is None else "failed:" + self.classify(e)

    def close(self):
        self.closing = True
        try:
            for g in list(self.gates.values()):
                if not g.done():
                    g.cancel()
            self.loop.shutdown()
        finally:
            self.root.removeHandler(self.cap)
            self.root.setLevel(self._root_level)
            self.clock.__exit__(None, None, None)
