"""Run TLC / SANY and parse what they print."""
import os
import re
import shutil
import subprocess
import tempfile
import time

SPECS = os.path.join(os.path.dirname(os.path.dirname(os.path.abspath(__file__))), "specs")
JAR_CP = "/opt/veriftools/tla/tla2tools.jar:/opt/veriftools/tla/CommunityModules-deps.jar"


class TLCError(RuntimeError):
    """machinery failure (parse error, crash, timeout) - never a verdict about haiway"""


class Result:
    def __init__(self):
        self.ok = False
        self.kind = None  # invariant | action_property | temporal | deadlock | assumption | postcondition
        self.name = None
        self.generated = 0
        self.distinct = 0
        self.depth = 0
        self.trace = []  # [(label, state_text)]
        self.coverage = {}  # action name -> (distinct, total)
        self.wall = 0.0
        self.out = ""

    def summary(self):
        return dict(ok=self.ok, kind=self.kind, name=self.name, generated=self.generated,
                    distinct=self.distinct, depth=self.depth, wall_s=round(self.wall, 2))


def _java(args, cwd, env=None, timeout=None, heap="8g"):
    cmd = ["java", "-XX:+UseParallelGC", f"-Xmx{heap}", "-Xss256m", "-cp", JAR_CP] + args    # (deep RECURSIVE operators on long traces)
    if cwd and os.path.basename(os.path.normpath(str(cwd))).startswith("haiway_verif_"):
        # TLC / SANY unpack their standard modules into java.io.tmpdir and leave them there: keep that inside the check's
        # own scratch directory, which is removed when the check ends
        cmd.insert(1, f"-Djava.io.tmpdir={cwd}")
    e = dict(os.environ)
    e.pop("JAVA_TOOL_OPTIONS", None)
    if env:
        e.update(env)
    t0 = time.time()
    try:
        p = subprocess.run(cmd, cwd=cwd, env=e, stdout=subprocess.PIPE, stderr=subprocess.STDOUT,
                           timeout=timeout, text=True, errors="replace")
    except subprocess.TimeoutExpired as ex:
        raise TLCError(f"timeout after {timeout}s: {' '.join(cmd)}\n{(ex.stdout or '')[-2000:]}")
    return p.returncode, p.stdout, time.time() - t0


def sany(spec):
    rc, out, _ = _java(["tla2sany.SANY", spec + ".tla"], cwd=SPECS, timeout=120, heap="1g")
    if rc != 0 or "Semantic errors" in out or "Parse Error" in out or "*** Errors" in out:
        raise TLCError(f"SANY rejects {spec}:\n{out[-3000:]}")
    return True


_RE_COUNTS = re.compile(r"(\d+) states generated, (\d+) distinct states found")
_RE_DEPTH = re.compile(r"The depth of the complete state graph search is (\d+)")
_RE_COV = re.compile(r"^<(\w+) line \d+, col \d+ to line \d+, col \d+ of module (\w+)>: (\d+):(\d+)", re.M)
_RE_STATE = re.compile(r"^State (\d+): <([^>]*)>\s*$", re.M)


def parse(out, res):
    m = None
    for m in _RE_COUNTS.finditer(out):
        pass
    if m:
        res.generated, res.distinct = int(m.group(1)), int(m.group(2))
    m = _RE_DEPTH.search(out)
    if m:
        res.depth = int(m.group(1))
    for m in _RE_COV.finditer(out):
        name = m.group(1)
        d, t = int(m.group(3)), int(m.group(4))
        od, ot = res.coverage.get(name, (0, 0))
        res.coverage[name] = (od + d, ot + t)
    if "Model checking completed. No error has been found." in out or \
            ("Finished computing initial states" in out and "Error:" not in out and "Finished in" in out):
        res.ok = True
        return res
    res.ok = False
    for pat, kind in ((r"Error: Invariant (\S+) is violated", "invariant"),
                      (r"Error: Action property (\S+) is violated", "action_property"),
                      (r"Error: Temporal properties were violated", "temporal"),
                      (r"Error: Deadlock reached", "deadlock"),
                      (r"Error: Assumption (.*) is false", "assumption"),
                      (r"Error: The postcondition (.*)is false|Error: Evaluating postcondition", "postcondition"),
                      ):
        m = re.search(pat, out)
        if m:
            res.kind = kind
            res.name = (m.group(1).rstrip(".") if m.groups() and m.group(1) else kind)
            break
    # counterexample
    pieces = _RE_STATE.split(out)
    # pieces: [pre, num, label, body, num, label, body...]
    for i in range(1, len(pieces) - 2, 3):
        body = pieces[i + 2]
        body = body.split("\n\n")[0]
        res.trace.append((pieces[i + 1], body.strip()))
    return res


def run(spec, cfg, workers=16, coverage=False, timeout=1800, dump=None, extra=(), env=None,
        deadlock=None, heap="8g", simulate=None, seed=None, keep_out=False, cwd=None):
    """spec: module name in specs/; cfg: file name in specs/ or absolute path."""
    meta = tempfile.mkdtemp(prefix="tlcmeta_")
    try:
        cfgp = cfg if os.path.isabs(cfg) else os.path.join(SPECS, cfg)
        args = ["tlc2.TLC", "-workers", str(workers), "-metadir", meta, "-noGenerateSpecTE",
                "-config", cfgp]
        if coverage:
            args += ["-coverage", "1"]
        if dump:
            args += ["-dump", "dot,actionlabels", dump]
        if simulate:
            args += ["-simulate", simulate]
        if seed is not None:
            args += ["-seed", str(seed)]
        args += list(extra)
        args += [spec + ".tla"]
        rc, out, wall = _java(args, cwd=cwd or SPECS, env=env, timeout=timeout, heap=heap)
        res = Result()
        res.wall = wall
        res.out = out
        parse(out, res)
        if not res.ok and res.kind is None:
            raise TLCError(f"TLC failed on {spec}/{os.path.basename(cfgp)} (rc={rc}):\n{out[-4000:]}")
        return res
    finally:
        shutil.rmtree(meta, ignore_errors=True)


def write_cfg(text, dirpath, name):
    p = os.path.join(dirpath, name)
    with open(p, "w") as f:
        f.write(text)
    return p
