"""Wrapped-function doubles carry attributes of their own, named like the internals of haiway's wrapper objects - as the
wrapper objects of the other helper decorators do when decorators are stacked, and as any user function may.  A wrapper
has to keep using its OWN state and the function it was given, whatever the function's __dict__ holds."""
import inspect
from collections import OrderedDict, deque


class _Poisoned(OrderedDict):
    """a cache table that is not the wrapper's own: any use of it is an error"""

    def _no(self, *a, **k):
        raise AssertionError("the wrapped function's attribute was used as the wrapper's own state")

    get = __getitem__ = __setitem__ = __delitem__ = __contains__ = move_to_end = popitem = pop = _no

    def __bool__(self):
        return True


def add_decoys(fn, is_async=True):
    def decoy(*args, **kwargs):
        return "decoy called instead of the wrapped function"

    async def adecoy(*args, **kwargs):
        return "decoy called instead of the wrapped function"

    fn._function = adecoy if is_async else decoy
    fn._entries = deque([1e15] * 64)                 # a throttle window that is full for ever
    fn._cached = _Poisoned()                         # a table that must never be looked at
    fn._limit = 0
    fn._period = 1e9
    fn._timeout = 1e9                                # a deadline that never comes
    fn._lock = None
    fn._loop = None
    fn._executor = None
    fn._next_expire_time = lambda: 0.0
    fn._hash = 0
    return fn


def decoyed(fn):
    """decorator form"""
    return add_decoys(fn, inspect.iscoroutinefunction(fn))
