#!/bin/sh
# tools/try_refactor.sh <dir with patch.diff + meta.json> [check ids...]  - apply a behaviour-preserving refactoring to /repo,
# run the quick checks (default: the properties named in meta.json), undo it.  Every check must stay silent (exit 0).
set -u
D="$(cd "$1" && pwd)"; shift
HERE="$(cd "$(dirname "$0")/.." && pwd)"
[ -n "$(git -C /repo status --porcelain)" ] && { echo "/repo is not clean"; exit 3; }
IDS="$*"
[ -z "$IDS" ] && IDS=$(/venv/bin/python -c "import json; print(' '.join(json.load(open('$D/meta.json'))['properties']))")
git -C /repo apply "$D/patch.diff" || { echo "patch does not apply"; exit 3; }
SCRATCH=$(mktemp -d)
export VERIF_EVIDENCE_DIR="$SCRATCH"
trap 'git -C /repo checkout -- . ; rm -rf "$SCRATCH"' EXIT
T=$(cd /repo && /venv/bin/python -m pytest -q -p no:cacheprovider tests 2>&1 | tail -1)
echo "tests with refactoring: $T"
rc_all=0
for id in $IDS; do
  out=$(cd "$HERE" && timeout 1200 ./check "$id" --tier "${TIER:-quick}" 2>&1); rc=$?
  case $rc in
    0) echo "$id SILENT (ok)";;
    1) echo "$id FALSE ALARM: $(printf '%s\n' "$out" | grep -m1 -A2 '^VIOLATION' | tail -2 | cut -c1-300)"; rc_all=1;;
    *) echo "$id BROKEN rc=$rc: $(printf '%s\n' "$out" | tail -3 | cut -c1-300)"; rc_all=1;;
  esac
done
exit $rc_all
