#!/bin/sh
# tools/try_refactor.sh <dir with patch.diff + meta.json> [check ids...]  - apply a behaviour-preserving refactoring, run the
# repository's tests and the quick checks (default: the properties named in meta.json), undo it.  Every check must stay
# silent (exit 0).  The refactoring is applied to /repo itself, or - when meta.json names a "base" commit because the patch
# was written for the tree before a later commit of this work (e.g. before the verification hooks went into queue.py) -
# to a scratch worktree of that commit, which the checks then read through HAIWAY_SRC.
set -u
D="$(cd "$1" && pwd)"; shift
HERE="$(cd "$(dirname "$0")/.." && pwd)"
IDS="$*"
[ -z "$IDS" ] && IDS=$(/venv/bin/python -c "import json; print(' '.join(json.load(open('$D/meta.json'))['properties']))")
BASE=$(/venv/bin/python -c "import json; print(json.load(open('$D/meta.json')).get('base', ''))")
[ -z "$BASE" ] && [ -n "${USE_SCRATCH:-}" ] && BASE=HEAD     # USE_SCRATCH=1: never touch /repo's working tree
SCRATCH=$(mktemp -d)
export VERIF_EVIDENCE_DIR="$SCRATCH/ev"; mkdir -p "$SCRATCH/ev"
if [ -n "$BASE" ]; then
  TREE="$SCRATCH/tree"
  git -C /repo worktree add -q --detach "$TREE" "$BASE" || { echo "cannot create a worktree of $BASE"; exit 3; }
  trap 'git -C /repo worktree remove --force "$TREE" 2>/dev/null; git -C /repo worktree prune; rm -rf "$SCRATCH"' EXIT
  export HAIWAY_SRC="$TREE/src"
  echo "(applied to a scratch worktree of $BASE)"
else
  [ -n "$(git -C /repo status --porcelain)" ] && { echo "/repo is not clean"; exit 3; }
  TREE=/repo
  trap 'git -C /repo checkout -- . ; rm -rf "$SCRATCH"' EXIT
fi
git -C "$TREE" apply "$D/patch.diff" || { echo "patch does not apply"; exit 3; }
T=$(cd "$TREE" && PYTHONPATH="$TREE/src" /venv/bin/python -m pytest -q -p no:cacheprovider tests 2>&1 | tail -1)
echo "tests with refactoring: $T"
rc_all=0
for id in $IDS; do
  out=$(cd "$HERE" && timeout 1200 ./check "$id" --tier "${TIER:-quick}" 2>&1); rc=$?
  case $rc in
    0) echo "$id SILENT (ok)";;
    1) echo "$id FALSE ALARM: $(printf '%s\n' "$out" | grep -m1 -A2 '^VIOLATION' | tail -2 | cut -c1-300)"; rc_all=1;;
    *) echo "$id BROKEN rc=$rc: $(printf '%s\n' "$out" | tail -3 | cut -c1-300)"; rc_all=1;;
  esac
done
exit $rc_all
