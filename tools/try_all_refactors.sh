#!/bin/sh
# tools/try_all_refactors.sh - every refactoring under refactors/ against the checks named in its meta.json; all must be silent
cd "$(dirname "$0")/.."
fail=0
for d in refactors/*/; do
  echo "== $d"
  tools/try_refactor.sh "$d" 2>&1 | grep -v "WARNING conda" || true

done 2>&1 | tee /tmp/refactors.log | grep -c "FALSE ALARM\|BROKEN\|does not apply" | { read n; echo "$n problems"; [ "$n" = 0 ]; }
