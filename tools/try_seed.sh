#!/bin/sh
# tools/try_seed.sh <seeded dir> [check ids...]   - apply a seeded change to /repo, run the quick checks, undo it.
# Prints one line per check: CAUGHT (exit 1 with a VIOLATION line) / MISSED (exit 0) / BROKEN (exit 2).
set -u
D="$(cd "$1" && pwd)"; shift
HERE="$(cd "$(dirname "$0")/.." && pwd)"
[ -n "$(git -C /repo status --porcelain)" ] && { echo "/repo is not clean"; exit 3; }
IDS="$*"
[ -z "$IDS" ] && IDS=$(/venv/bin/python -c "import json,sys; print(json.load(open('$D/meta.json'))['property'])")
git -C /repo apply "$D/patch.diff" || { echo "patch does not apply"; exit 3; }
SCRATCH=$(mktemp -d)
export VERIF_EVIDENCE_DIR="$SCRATCH"
trap 'git -C /repo checkout -- . ; rm -rf "$SCRATCH"' EXIT
for id in $IDS; do
  out=$(cd "$HERE" && timeout 1200 ./check "$id" --tier "${TIER:-quick}" 2>&1); rc=$?
  n=$(printf '%s\n' "$out" | grep -c '^VIOLATION')
  case $rc in
    1) echo "$id CAUGHT ($n violation lines): $(printf '%s\n' "$out" | grep -m1 -A1 '^VIOLATION' | tail -1 | cut -c1-220)";;
    0) echo "$id MISSED";;
    *) echo "$id BROKEN rc=$rc: $(printf '%s\n' "$out" | tail -2 | cut -c1-300)";;
  esac
done
