#!/bin/sh
# tools/run_all.sh [quick|thorough]  - run every check of the given tier, print one summary line per property
TIER="${1:-quick}"
cd "$(dirname "$0")/.."
for i in 01 02 03 04 05 06 07 08 09 10 11 12 13 14 15 16 17 18 19 20; do
  s=$(date +%s)
  out=$(timeout "${CHECK_TIMEOUT:-1800}" ./check C$i --tier "$TIER" 2>&1); rc=$?
  e=$(( $(date +%s) - s ))
  echo "C$i rc=$rc ${e}s  $(printf '%s\n' "$out" | grep -c '^VIOLATION') violations, $(printf '%s\n' "$out" | grep -c '^KNOWN-FINDING') known; $(printf '%s\n' "$out" | tail -1 | cut -c1-160)"
  [ $rc -ne 0 ] && printf '%s\n' "$out" | grep -v '^\[C..\]   ' | tail -15
done
