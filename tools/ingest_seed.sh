#!/bin/sh
# tools/ingest_seed.sh <worktree> <name>  - confirm a seeded change in its scratch worktree (tests pass, demo fails with
# the patch and passes without) and copy it to /verif/seeded/<name>/
set -eu
WT="$1"; NAME="$2"
HERE="$(cd "$(dirname "$0")/.." && pwd)"
cd "$WT"
git checkout -q -- src
export PYTHONPATH="$WT/src"
/venv/bin/python seeded/demo.py >/dev/null 2>&1 && echo "demo passes on unchanged tree" || { echo "demo FAILS on unchanged tree"; exit 1; }
git apply seeded/patch.diff
T=$(/venv/bin/python -m pytest -q -p no:cacheprovider tests 2>&1 | tail -1)
echo "tests with patch: $T"
if /venv/bin/python seeded/demo.py >/dev/null 2>&1; then echo "demo PASSES with patch (not a valid seed)"; git checkout -q -- src; exit 1; fi
echo "demo fails with patch"
git checkout -q -- src
case "$T" in *"65 passed"*) ;; *) echo "tests do not all pass with the patch"; exit 1;; esac
mkdir -p "$HERE/seeded/$NAME"
cp seeded/patch.diff seeded/demo.py seeded/meta.json "$HERE/seeded/$NAME/"
echo "ingested -> seeded/$NAME"
