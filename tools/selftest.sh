#!/bin/sh
# tools/selftest.sh - evidence that the checks have teeth and stay quiet:
#   1. the repository's baseline tests pass with the guard off
#   2. every seeded change under seeded/ is reported by the quick check of its property (and /repo is restored)
#      (SCRATCH=1: the change is applied to a scratch worktree instead, /repo is never touched)
#   3. corrupting one recorded field of one trace makes trace validation reject it (binding demonstration)
cd "$(dirname "$0")/.."
fail=0
echo "== baseline tests (guard off)"
(cd /repo && env -u HAIWAY_VERIF /venv/bin/python -m pytest -q -p no:cacheprovider tests 2>&1 | tail -1) | tee /dev/stderr | grep -q "65 passed" || fail=1
echo "== seeded changes"
for d in seeded/C*/; do
  if grep -q '"obsolete"' "$d/meta.json"; then echo "$(basename "$d"): obsolete (skipped)"; continue; fi
  if [ -n "${SCRATCH:-}" ]; then r=$(tools/try_seed_scratch.sh "$d" 2>&1 | grep -a -m1 'CAUGHT\|MISSED\|BROKEN\|does not apply'); else r=$(tools/try_seed.sh "$d" 2>&1 | grep -a -m1 'CAUGHT\|MISSED\|BROKEN\|does not apply\|not clean'); fi
  echo "$(basename "$d"): $r" | cut -c1-200
  case "$r" in *CAUGHT*) ;; *) fail=1;; esac
done
echo "== corrupted trace"
PYTHONHASHSEED=0 PYTHONPATH=.:/repo/src /venv/bin/python - <<'PY' || fail=1
import random, sys
from harness.legs import Work, cfg_text, leg_t
from harness.report import Report
from props import c17
rnd = random.Random(1)
traces = [c17.gen_trace(rnd, 20) for _ in range(5)]
ev = next(e for e in traces[2] if e["ev"] == "Enqueue")
ev["res"][2] = "RuntimeError" if ev["res"][2] == "ok" else "ok"      # corrupt one recorded field
rep = Report("SELFTEST", "quick", 0)
with Work() as work:
    v = leg_t(rep, work, "QueueTrace", "selftest", cfg_text(None, spec="TraceSpec", invariants=["NoLoss"], constraints=["Track"], postcondition="Report"), traces)
bad = [k for k, x in v.items() if x[0] != "ACCEPT"]
print("rejected traces:", bad)
sys.exit(0 if bad == [3] else 1)
PY
rm -rf evidence/SELFTEST.json evidence/replays/SELFTEST-*
[ $fail -eq 0 ] && echo "SELFTEST OK" || echo "SELFTEST FAILED"
exit $fail
