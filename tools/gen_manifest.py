#!/venv/bin/python
"""Regenerates /verif/MANIFEST.json from the table below (keeps it schema-valid at all times)."""
import json
import os

ROOT = os.path.dirname(os.path.dirname(os.path.abspath(__file__)))
ALL = [f"C{i:02d}" for i in range(1, 21)]

NOTE_COMMON = ("Trusted: TLC 1.8 + CommunityModules; harness/vloop.py (deterministic virtual-time loop over CPython "
               "3.12 BaseEventLoop); harness/tlaval.py (parser for TLC values); the per-property driver/projection in "
               "props/. Exhaustive only within the stated constants.")

import importlib
import sys

sys.path.insert(0, ROOT)
CHECKS = {}
for _pid in ALL:
    if os.path.exists(os.path.join(ROOT, "props", _pid.lower() + ".py")):
        try:
            CHECKS[_pid] = importlib.import_module("props." + _pid.lower()).MANIFEST
        except AttributeError:
            pass

REASON_TODO = "check not built yet in this round; design in DESIGN.md section 5 (the property is in scope of the technique)"


def main():
    checks = []
    for pid in ALL:
        c = CHECKS.get(pid)
        if not c:
            continue
        checks.append(dict(
            property_id=pid,
            quick_cmd=f"./check {pid} --tier quick",
            thorough_cmd=f"./check {pid} --tier thorough",
            evidence_file=f"/verif/evidence/{pid}.json",
            replay_cmd_template=f"./check {pid} --replay {{path}}",
            engine="tlc-conformance",
            level_claimed=dict(category="model_checking", text=c["text"], design_ref=c["design"]),
            level_note=c.get("note", NOTE_COMMON),
            technique=c["technique"],
        ))
    man = dict(
        version=1,
        setup_cmd="./setup.sh",
        hooks=dict(
            guard="HAIWAY_VERIF",
            enable="nothing is built: checks import haiway from /repo/src (PYTHONPATH); ./check exports HAIWAY_VERIF=1. One "
                   "add-only hook commit (src/haiway/utils/queue.py): with HAIWAY_VERIF=1 AND an observer installed by the "
                   "harness (harness/qhook.py) every public call of AsyncQueue and every resumption of a suspended receive "
                   "emits one event; C17 validates the traces of the repository's own tests and of programs on a real "
                   "asyncio loop against QueueTrace.tla. All other checks observe the library through its public API and "
                   "harness-owned test doubles.",
            baseline_off_cmd="cd /repo && env -u HAIWAY_VERIF /venv/bin/python -m pytest -ra -q -p no:cacheprovider "
                             "--timeout=900 --continue-on-collection-errors tests",
            source_commits=["3b6eb43"],
            add_only=True,
        ),
        engines=[dict(name="tlc-conformance", path="/verif/check",
                      serves_properties=sorted(CHECKS),
                      kind_free_text="explicit TLA+ specifications (specs/*.tla) checked by TLC; state graphs and "
                                     "simulated behaviours replayed into the real library on a deterministic virtual "
                                     "event loop; traces recorded from the real library validated by trace specs")],
        checks=checks,
        notes="See DESIGN.md. known_findings.json lists repaired (fixed:) and open findings.",
        not_applicable=[dict(property_id=p, reason=REASON_TODO) for p in ALL if p not in CHECKS],
    )
    with open(os.path.join(ROOT, "MANIFEST.json"), "w") as f:
        json.dump(man, f, indent=1)
    print("MANIFEST.json:", len(checks), "checks,", len(man["not_applicable"]), "not applicable")


if __name__ == "__main__":
    main()
