import sys
name, files, props = sys.argv[1], sys.argv[2], sys.argv[3:]
text = "\n\n".join(open(f"/tmp/wt/{p}.prop.txt").read() for p in props)
print(f"""You are helping test a verification framework for FALSE ALARMS. The framework checks the semantic properties listed below on a Python library; it must stay silent on any version of the library in which those properties still hold - even if other, unlisted behaviour changes.

The library is miquido/haiway (a small Python 3.12 asyncio helper library). You have your own scratch git worktree of it at /tmp/wt/{name} (do ALL your work there; never touch /repo or /verif, and do not read anything under /verif). Run python as `/venv/bin/python` with `PYTHONPATH=/tmp/wt/{name}/src`; run the existing test suite with: `cd /tmp/wt/{name} && PYTHONPATH=/tmp/wt/{name}/src /venv/bin/python -m pytest -q -p no:cacheprovider tests`. There is no network.

These properties hold today and MUST STILL HOLD after your change (read them carefully - they are the ONLY thing that is promised):

---
{text}---

Your task: make the kind of changes a maintainer makes when EVOLVING the library in {files} - changes that DO alter some observable behaviour, but only behaviour that the properties above do not speak about. Examples: reword or restructure log messages and add extra debug/info log lines at lifecycle points; change exception MESSAGES and, where a property does not name the exception type, the concrete exception class raised for misuse (keep documented/standard ones like TimeoutError, CancelledError, RuntimeError-on-finished-queue if a property mentions them); add new optional keyword parameters with defaults that preserve today's behaviour; add new public helper methods/properties; change __repr__/__str__ output; tighten or relax asserts on clearly invalid usage; change internal timing that no property constrains (e.g. an extra `await sleep(0)`-free reordering of bookkeeping, NOT extra suspension points where a property talks about timing); change the default name/label used for things; make error reporting richer (exception notes, chained causes). Make 4-6 such changes. Every property above must still hold for every input it quantifies over, and the existing test suite must still pass (you may NOT edit tests).

Deliverables inside /tmp/wt/{name}/seeded/ :
1. patch.diff - `git -C /tmp/wt/{name} diff > seeded/patch.diff` (must apply with `git apply` to a clean checkout of the same commit)
2. meta.json - {{"kind": "evolution", "properties": {props!r}, "summary": "<what you changed and why each change leaves the properties intact>", "files": [...]}}

Note: the file src/haiway/utils/queue.py contains verification hooks guarded by _VERIF (inert); leave those lines alone.
Verify yourself: all 65 tests pass with the patch. Leave the worktree with the patch REVERTED (clean `git status` apart from seeded/). Report briefly what you changed.""")
