import sys, json, glob, subprocess
pid = sys.argv[1]
wt = pid + "j"
base = subprocess.run(["/venv/bin/python", "/tmp/wt/prompt.py", pid], capture_output=True, text=True).stdout
base = base.replace(f"/tmp/wt/{pid}/", f"/tmp/wt/{wt}/").replace(f"/tmp/wt/{pid} ", f"/tmp/wt/{wt} ").replace(f"/tmp/wt/{pid}`", f"/tmp/wt/{wt}`").replace(f"/tmp/wt/{pid})", f"/tmp/wt/{wt})")
prev = []
for d in sorted(glob.glob(f"/verif/seeded/{pid}-*/meta.json")):
    m = json.load(open(d))
    prev.append(m.get("summary", "").strip())
lst = "\n".join(f"{i+1}. {s}" for i, s in enumerate(prev))
print(base.rstrip() + f"""


Other engineers have already seeded these changes for the same property:
{lst}

The verification framework under test catches all of them, including very exotic ones. This round is about REALISM instead of exoticism: write the change the way a real maintainer of this library would plausibly write it in a real pull request, as one of
 - a FEATURE or API extension (a new optional parameter, a new convenience method, support for one more input type, a new hook / callback, richer logging or metrics) whose implementation is correct for the new feature but quietly alters the existing behaviour that this property describes;
 - a PERFORMANCE improvement (avoid a copy, avoid re-creating an object, hoist a lookup out of a loop or out of a call, memoise something, replace a data structure, add a fast path for the common case, lazily create something that used to be created eagerly or the reverse);
 - a ROBUSTNESS / clean-up change (broader or narrower except clause, moving code into / out of try-finally, turning an assert into a check or back, de-duplicating two similar code paths into one helper, replacing hand-written code with a standard-library utility such as functools / itertools / contextlib / asyncio.timeout / asyncio.TaskGroup / asyncio.wait_for / dataclasses.replace / copy.copy that has slightly different semantics);
 - a PORT of how a newer version of such a library would do it (e.g. different ownership of who closes / finishes / resets what, different moment at which something is resolved or snapshotted).
The change may be larger than a one-liner (10-40 changed lines are fine) and should read like honest work with a sensible (fictional) commit message, which you put into meta.json as "commit_message". The violation should show up in usage that a typical application could really have - nothing contrived about the objects involved - yet which the 65 tests happen not to exercise: a particular but natural combination (e.g. the feature used from a spawned task, two features combined, the second use of something, a failure or cancellation on a natural path, a natural parameter combination). Different mechanism from everything in the list above.

Note: the file src/haiway/utils/queue.py contains verification hooks guarded by _VERIF (inert); leave those lines alone and keep them consistent if you move code around them.""")
