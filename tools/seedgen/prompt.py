import sys
pid=sys.argv[1]
prop=open(f"/tmp/wt/{pid}.prop.txt").read()
print(f"""You are helping test a verification framework by writing a realistic *seeded defect* for a Python library.

The library is miquido/haiway (a small Python 3.12 asyncio helper library). You have your own scratch git worktree of it at /tmp/wt/{pid} (do ALL your work there; never touch /repo or /verif, and do not read anything under /verif). Run python as `/venv/bin/python` with `PYTHONPATH=/tmp/wt/{pid}/src`; run the existing test suite with: `cd /tmp/wt/{pid} && PYTHONPATH=/tmp/wt/{pid}/src /venv/bin/python -m pytest -q -p no:cacheprovider tests`. There is no network.

This semantic property of the library is supposed to hold:

---
{prop}---

Your task: produce ONE small change to the library source (under /tmp/wt/{pid}/src/haiway/) that BREAKS this property while (a) the code still imports/compiles, and (b) the existing test suite (all 65 tests) still passes. The change should look like a plausible maintenance mistake or "optimisation" (an off-by-one, a dropped check, a reordered pair of statements, a wrong comparison, a missing await/shield/finally, two sites that each look fine alone...), and it should need something SPECIFIC to manifest - a particular interleaving, a fault or cancellation at a particular point, a multi-step sequence of operations, an unusual input - not something that ordinary happy-path use would expose at once. Do not merely revert a recent fix commit wholesale (look at `git log` to see recent 'fix:' commits; pick something different, or a subtler variant).

Deliverables, all inside /tmp/wt/{pid}/seeded/ :
1. patch.diff - the change as a unified diff (`git -C /tmp/wt/{pid} diff > seeded/patch.diff`, made BEFORE creating other untracked files is fine; it must apply with `git apply` to a clean checkout of the same commit).
2. demo.py - a small standalone program (uses only the library + stdlib, `asyncio.run`) that exits 0 on the UNCHANGED library and exits non-zero (assertion failure) on the CHANGED library, demonstrating the property violation. It must be deterministic.
3. meta.json - {{"property": "{pid}", "summary": "<one sentence what the change does>", "needs": "<what specific situation is needed for it to manifest>", "files": [...]}}

Verify yourself before finishing: with the patch applied the 65 tests pass and demo.py fails; with the patch reverted (`git -C /tmp/wt/{pid} checkout -- src`) demo.py passes. Leave the worktree with the patch REVERTED (clean `git status` apart from the seeded/ directory). Report briefly what you did.""")
