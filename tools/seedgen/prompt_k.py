import sys, json, glob, subprocess
pid = sys.argv[1]
wt = pid + "k"
base = subprocess.run(["/venv/bin/python", "/tmp/wt/prompt.py", pid], capture_output=True, text=True).stdout
base = base.replace(f"/tmp/wt/{pid}/", f"/tmp/wt/{wt}/").replace(f"/tmp/wt/{pid} ", f"/tmp/wt/{wt} ").replace(f"/tmp/wt/{pid}`", f"/tmp/wt/{wt}`").replace(f"/tmp/wt/{pid})", f"/tmp/wt/{wt})")
prev = []
for d in sorted(glob.glob(f"/verif/seeded/{pid}-*/meta.json")):
    m = json.load(open(d))
    prev.append(m.get("summary", "").strip())
lst = "\n".join(f"{i+1}. {s}" for i, s in enumerate(prev))
print(base.rstrip() + f"""


Other engineers have already seeded these changes for the same property:
{lst}

The verification framework under test catches all of them - exotic ones and realistic pull requests (features, performance work, clean-ups) alike. This round stays REALISTIC - write the change the way a real maintainer of this library would plausibly write it in a real pull request - but pick a KIND of pull request that is not yet in the list above, one of
 - an ERROR-HANDLING "improvement": wrapping low-level exceptions into library-specific ones, adding `raise ... from`, attaching notes, turning a silent condition into an error or an error into a warning / log line, validating arguments earlier or later than before, narrowing `BaseException` to `Exception` or widening it;
 - a MEMORY / LIFETIME fix: weak references instead of strong ones, clearing references or caches early ("help the garbage collector"), breaking reference cycles, `__slots__`, `del` of a local, releasing something in `finally`, reusing one object instead of allocating one per call;
 - a THREAD-SAFETY or RE-ENTRANCY hardening: adding a lock, a flag, a "already running" guard, `call_soon_threadsafe`, a copy of a collection before iterating, double-checked initialisation;
 - a TYPING-driven refactor: changing a signature to please the type checker (positional-only / keyword-only markers, `*args` to explicit parameters, Optional defaults, overloads, Protocols, `Self`, generics) where the runtime behaviour drifts with it;
 - a DEFAULTS / CONFIGURATION change: a different default value, a default computed at import or decoration time instead of per call (or the reverse), an environment variable consulted, a module-level constant, a sentinel replaced by None or the reverse;
 - an OBSERVABILITY addition: extra log lines, metrics or timing measurements that read or touch state at a slightly wrong moment, evaluate something eagerly (repr / str / len / bool of user objects), or keep a reference;
 - a COMPATIBILITY shim: supporting another Python version / event loop / executor type / exception-group style, feature detection with a fallback path, where the fallback or the detection quietly changes what happens on this interpreter.
The change may be larger than a one-liner (10-40 changed lines are fine) and should read like honest work with a sensible (fictional) commit message, which you put into meta.json as "commit_message". The violation should show up in usage that a typical application could really have - nothing contrived about the objects involved - yet which the 65 tests happen not to exercise: a particular but natural combination (e.g. the feature used from a spawned task, two features combined, the second use of something, a failure or cancellation on a natural path, a natural parameter combination). Different mechanism from everything in the list above.

Note: the file src/haiway/utils/queue.py contains verification hooks guarded by _VERIF (inert); leave those lines alone and keep them consistent if you move code around them.""")
