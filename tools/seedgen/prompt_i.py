import sys, json, glob, subprocess
pid = sys.argv[1]
FORBID = {
 "C01": "src/haiway/context/state.py", "C02": "src/haiway/context/access.py or src/haiway/context/state.py",
 "C03": "src/haiway/context/state.py or src/haiway/context/tasks.py", "C06": "src/haiway/context/tasks.py or src/haiway/context/access.py",
 "C07": "src/haiway/context/tasks.py or src/haiway/context/access.py", "C08": "src/haiway/context/disposables.py",
 "C09": "src/haiway/context/metrics.py", "C10": "src/haiway/context/metrics.py", "C11": "src/haiway/context/access.py",
 "C12": "src/haiway/helpers/caching.py", "C13": "src/haiway/helpers/caching.py", "C14": "src/haiway/helpers/retries.py",
 "C15": "src/haiway/helpers/throttling.py", "C16": "src/haiway/helpers/timeouted.py",
 "C18": "src/haiway/helpers/asynchrony.py or src/haiway/helpers/tracing.py", "C19": "src/haiway/context/metrics.py",
}
forbidden = FORBID[pid]            # e.g. C09
wt = pid + "i"
base = subprocess.run(["/venv/bin/python", "/tmp/wt/prompt.py", pid], capture_output=True, text=True).stdout
base = base.replace(f"/tmp/wt/{pid}/", f"/tmp/wt/{wt}/").replace(f"/tmp/wt/{pid} ", f"/tmp/wt/{wt} ").replace(f"/tmp/wt/{pid}`", f"/tmp/wt/{wt}`").replace(f"/tmp/wt/{pid})", f"/tmp/wt/{wt})")
prev = []
for d in sorted(glob.glob(f"/verif/seeded/{pid}-*/meta.json")):
    m = json.load(open(d))
    prev.append(m.get("summary", "").strip())
lst = "\n".join(f"{i+1}. {s}" for i, s in enumerate(prev))
print(base.rstrip() + f"""


Other engineers have already seeded these changes for the same property:
{lst}

The verification framework under test catches all of them. It drives the library with test doubles on a deterministic event loop with a virtual clock, explores many interleavings and cancellation points, and its doubles are deliberately nasty: falsy / equal-comparing / shared objects, one-shot iterables, exceptions that are BaseException or both CancelledError and Exception, hash-colliding arguments, decoy attributes named like the wrappers' internals on wrapped functions, wrapper objects first used on another (still open) event loop, callers inside their own scopes, scope / update objects built in one place and entered in another (also twice, also after a garbage collection), streams created outside any scope, backlogs of thousands of elements, values judged repeatedly. Also covered by now: almost everything that can be done to the module that implements this feature. So this time the rule is different: you MUST NOT change {forbidden}. Break THIS property INDIRECTLY, by changing some OTHER file of the library that the feature relies on - for example src/haiway/utils/mimic.py, src/haiway/utils/immutable.py (freeze), src/haiway/types/missing.py, src/haiway/state/structure.py (State: __eq__, __hash__, __init__, __setattr__, copying, as_dict, generic specialisation), src/haiway/state/validation.py, src/haiway/context/tasks.py, src/haiway/context/state.py, src/haiway/context/metrics.py, src/haiway/context/disposables.py, src/haiway/context/access.py, src/haiway/helpers/tracing.py, src/haiway/utils/logs.py, src/haiway/__init__.py (what is exported / in which order things are imported) - in a way that looks locally harmless (an optimisation, a tidy-up, a robustness fix) there. Trace how the feature of this property uses that other code and find a change whose effect surfaces as a violation of THIS property, ideally only under some specific circumstance. The verification framework's checks for the properties of the module you DO change may well notice something too - that is fine - but your demo must show a violation of THIS property as stated.
Subtle is better than blatant, but the demo must still show a real violation of the property as stated.

Note: the file src/haiway/utils/queue.py contains verification hooks guarded by _VERIF (inert); leave those lines alone and keep them consistent if you move code around them.""")
