import sys
name, files, props = sys.argv[1], sys.argv[2], sys.argv[3:]
text = "\n\n".join(open(f"/tmp/wt/{p}.prop.txt").read() for p in props)
print(f"""You are helping test a verification framework for FALSE ALARMS by writing a behaviour-preserving refactoring of a Python library.

The library is miquido/haiway (a small Python 3.12 asyncio helper library). You have your own scratch git worktree of it at /tmp/wt/{name} (do ALL your work there; never touch /repo or /verif, and do not read anything under /verif). Run python as `/venv/bin/python` with `PYTHONPATH=/tmp/wt/{name}/src`; run the existing test suite with: `cd /tmp/wt/{name} && PYTHONPATH=/tmp/wt/{name}/src /venv/bin/python -m pytest -q -p no:cacheprovider tests`. There is no network.

These semantic properties of the library hold today and MUST STILL HOLD after your change:

---
{text}---

Your task: substantially REFACTOR the implementation in {files} - the kind of change a maintainer makes without intending any behaviour change - so that everything observable through the PUBLIC API stays exactly the same (same results, same exception types reaching callers, same timing in terms of event-loop suspension points where the properties care, same public names/signatures), but the internals look different. Good candidates: rename private attributes, helper functions and local variables; restructure control flow (early returns, merged/split branches, match<->if); replace internal data structures with equivalent ones (deque<->list, OrderedDict<->dict+order list, sets<->dicts); change the wording of log messages, exception MESSAGES (not types) and comments; inline or extract private helpers; switch `from time import monotonic` to `import time` + `time.monotonic()`; reorder independent statements. Make at least 4-5 such changes. Do NOT change public behaviour, do not fix or introduce bugs, do not change which exceptions are raised or when tasks suspend.

Deliverables inside /tmp/wt/{name}/seeded/ :
1. patch.diff - `git -C /tmp/wt/{name} diff > seeded/patch.diff` (must apply with `git apply` to a clean checkout of the same commit)
2. meta.json - {{"kind": "refactor", "properties": {props!r}, "summary": "<what you changed>", "files": [...]}}

Verify yourself: all 65 tests pass with the patch. Leave the worktree with the patch REVERTED (clean `git status` apart from seeded/). Report briefly what you changed.""")
