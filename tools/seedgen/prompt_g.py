import sys, json, glob, subprocess
pid = sys.argv[1]            # e.g. C09
wt = pid + "g"
base = subprocess.run(["/venv/bin/python", "/tmp/wt/prompt.py", pid], capture_output=True, text=True).stdout
base = base.replace(f"/tmp/wt/{pid}/", f"/tmp/wt/{wt}/").replace(f"/tmp/wt/{pid} ", f"/tmp/wt/{wt} ").replace(f"/tmp/wt/{pid}`", f"/tmp/wt/{wt}`").replace(f"/tmp/wt/{pid})", f"/tmp/wt/{wt})")
prev = []
for d in sorted(glob.glob(f"/verif/seeded/{pid}-*/meta.json")):
    m = json.load(open(d))
    prev.append(m.get("summary", "").strip())
lst = "\n".join(f"{i+1}. {s}" for i, s in enumerate(prev))
print(base.rstrip() + f"""


Other engineers have already seeded these changes for the same property:
{lst}

The verification framework under test catches all of them. It drives the library with test doubles on a deterministic event loop with a virtual clock, explores many interleavings and cancellation points, and its doubles are deliberately nasty: falsy / equal-comparing / shared objects, one-shot iterables, exceptions that are BaseException or both CancelledError and Exception, hash-colliding arguments, decoy attributes named like the wrappers' internals on wrapped functions, wrapper objects first used on another (still open) event loop, callers inside their own scopes, scope / update objects built in one place and entered in another (also twice, also after a garbage collection), streams created outside any scope, backlogs of thousands of elements, values judged repeatedly. So all of THAT is covered. Choose a clearly DIFFERENT mechanism and make it HARD to catch. Ideas (pick ONE that suits this property, or invent your own):
 - what kind of callable or class is handed to the library: a bound method, classmethod / staticmethod, functools.partial, a callable object with __call__, a lambda, a coroutine function returning an awaitable subclass, an async generator method; a State subclass that overrides or adds attributes, has ClassVar / Final / Annotated / Self / forward-reference / string annotations, properties, __post_init__-like hooks, inheritance chains of generics;
 - argument passing details in wrappers: positional-only / keyword-only parameters, defaults, *args / **kwargs order, arguments that are unhashable or mutable, very many arguments, argument objects mutated between calls;
 - exception details: __cause__ / __context__ / __traceback__ / __notes__ preserved, exception identity versus an equal copy, exception raised from __eq__ / __hash__ / __bool__ / __repr__ / __str__ of a user object the library touches, errors inside user callbacks (completion callbacks, delay functions, merge functions, loggers / handlers raising);
 - re-entrancy: a completion callback / merge function / delay function / generator body / disposable that itself uses the same library feature (opens scopes, records metrics, logs, calls the same cached / throttled / retried function, enqueues into the same queue);
 - exact instants: two things at the very same clock value, zero or negative durations, a limit / period / expiration of exactly 0 or 1, floats versus ints versus timedelta with microseconds, clock values far from zero;
 - protocol details of generators and iterators: asend / athrow / aclose on a stream, iterating twice, abandoning and resuming, `async for` ... `else`, return value in StopIteration, an iterator that raises on the second call;
 - logging side effects: wrong level, duplicated or missing line, wrong logger, message formatted eagerly (side effects in __str__), exception info attached or lost;
 - the sync versus async variant of a helper drifting apart (only one of the two changed), the function form versus the method form, the decorator used with and without parentheses / arguments.
Subtle is better than blatant, but the demo must still show a real violation of the property as stated.

Note: the file src/haiway/utils/queue.py contains verification hooks guarded by _VERIF (inert); leave those lines alone and keep them consistent if you move code around them.""")
