import sys, json, glob, subprocess
pid = sys.argv[1]            # e.g. C09
wt = pid + "h"
base = subprocess.run(["/venv/bin/python", "/tmp/wt/prompt.py", pid], capture_output=True, text=True).stdout
base = base.replace(f"/tmp/wt/{pid}/", f"/tmp/wt/{wt}/").replace(f"/tmp/wt/{pid} ", f"/tmp/wt/{wt} ").replace(f"/tmp/wt/{pid}`", f"/tmp/wt/{wt}`").replace(f"/tmp/wt/{pid})", f"/tmp/wt/{wt})")
prev = []
for d in sorted(glob.glob(f"/verif/seeded/{pid}-*/meta.json")):
    m = json.load(open(d))
    prev.append(m.get("summary", "").strip())
lst = "\n".join(f"{i+1}. {s}" for i, s in enumerate(prev))
print(base.rstrip() + f"""


Other engineers have already seeded these changes for the same property:
{lst}

The verification framework under test catches all of them. It drives the library with test doubles on a deterministic event loop with a virtual clock, explores many interleavings and cancellation points, and its doubles are deliberately nasty: falsy / equal-comparing / shared objects, one-shot iterables, exceptions that are BaseException or both CancelledError and Exception, hash-colliding arguments, decoy attributes named like the wrappers' internals on wrapped functions, wrapper objects first used on another (still open) event loop, callers inside their own scopes, scope / update objects built in one place and entered in another (also twice, also after a garbage collection), streams created outside any scope, backlogs of thousands of elements, values judged repeatedly. Also covered by now: bound methods / partials / validating sync fronts as wrapped callables, keyword arguments named like the wrappers' own parameters, exceptions whose __str__ raises, re-entrant cached recursion, zero-argument calls, exception instances as queue elements, calls arriving at the exact instant a throttle slot frees, cancellation between "the awaited thing completed" and "the task runs again", pulls requested but never run, updates held open by generators and closed by other tasks, scopes opened in threads without an event loop, logging reconfigured after scope creation, subclasses overriding only defaults, Protocol-typed attributes, merge functions answering with another class. So all of THAT is covered. Choose a clearly DIFFERENT mechanism and make it HARD to catch. Ideas (pick ONE that suits this property, or invent your own):
 - parameter boundaries of the feature itself: limit / period / timeout / expiration / delay of exactly 0, negative, float('inf'), a bool where an int is expected, a very large number, a float that is not exactly representable (0.1 + 0.2), timedelta of zero or with days; empty names; empty argument lists; the feature configured with its documented default versus the same value given explicitly;
 - accumulated effects: a difference that appears only after MANY uses (the 50th call, the 100th element, the 30th nested scope, deep recursion of scopes or tasks), counters that wrap or drift, caches of internal objects that grow or get stale, rounding errors that add up;
 - text: non-ASCII / very long / multi-line / format-looking ("{{}}", "%(x)s", backslash-n) scope names, messages, trace ids, keys; str subclasses; bytes where str is expected;
 - life-cycle ends: behaviour when the event loop is closing or closed, when a task is garbage collected unfinished, when an async generator is finalised by the loop instead of being closed, when the interpreter runs with -O (assert statements stripped), when an object is pickled / copied / deep-copied / weak-referenced;
 - ordering among equals: several things due at the same instant or same priority where the order is specified by the property (arrival order, creation order, recording order) but a data structure with another order (set, dict keyed differently, heap, reversed iteration, sort that is not stable for the key used) is substituted;
 - a condition written with the wrong but almost equivalent operator or operand (<= for <, `is` for ==, `or` for `if x is None`, any() for all(), a default evaluated once instead of per call, late-binding closure variable in a loop, mutable default argument, shadowed variable, wrong variable of two similarly named ones) placed on a path the listed seeds did not touch.
Subtle is better than blatant, but the demo must still show a real violation of the property as stated.

Note: the file src/haiway/utils/queue.py contains verification hooks guarded by _VERIF (inert); leave those lines alone and keep them consistent if you move code around them.""")
