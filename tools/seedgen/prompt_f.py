import sys, json, glob, subprocess
pid = sys.argv[1]            # e.g. C09
wt = pid + "f"
base = subprocess.run(["/venv/bin/python", "/tmp/wt/prompt.py", pid], capture_output=True, text=True).stdout
base = base.replace(f"/tmp/wt/{pid}/", f"/tmp/wt/{wt}/").replace(f"/tmp/wt/{pid} ", f"/tmp/wt/{wt} ").replace(f"/tmp/wt/{pid}`", f"/tmp/wt/{wt}`").replace(f"/tmp/wt/{pid})", f"/tmp/wt/{wt})")
prev = []
for d in sorted(glob.glob(f"/verif/seeded/{pid}-*/meta.json")):
    m = json.load(open(d))
    prev.append(m.get("summary", "").strip())
lst = "\n".join(f"{i+1}. {s}" for i, s in enumerate(prev))
print(base.rstrip() + f"""


Other engineers have already seeded these changes for the same property:
{lst}

The verification framework under test catches all of them. It drives the library with test doubles on a deterministic event loop, with many interleavings, cancellation points, falsy / equal-comparing / shared objects and unusual but legal inputs, so the obvious places are well covered. Choose a clearly DIFFERENT mechanism and make it HARD to catch. Ideas (pick ONE that suits this property, or invent your own):
 - an INDIRECT break: change a shared utility or a neighbouring module (haiway/utils/*, haiway/types/*, haiway/state/*, haiway/context/* helpers) in a way that looks locally harmless but breaks THIS property through a user of that utility;
 - a change that needs a particular *kind* of exception or value: a BaseException that is not CancelledError (KeyboardInterrupt, SystemExit, GeneratorExit), an ExceptionGroup, an exception whose __eq__/__bool__/__hash__ is unusual, NaN / -0.0 / very large numbers, bool-vs-int, empty vs None, a subclass of a builtin, a state with no attributes, a state with defaults;
 - a boundary: limit 0 / 1 / exactly-at-limit, expiry / period / timeout exactly at the boundary instant, zero-length input, the first versus the N-th use, re-entrancy (the wrapped function or a callback calling back into the same object);
 - an ordering / lifetime effect: something kept alive too long or dropped too early (weak references, garbage collection, reuse of an id or key after an object died), state carried over between two independent uses of the same decorator / scope / queue object, or between two event loops run one after another;
 - a two-site change where each site looks fine alone;
 - a change that is only wrong when two library features are combined (for example this feature used inside ctx.stream, inside an executor thread via asynchronous(), under a cached or retried or throttled or timed-out wrapper, in a nested scope with disposables, with a custom logger / trace id / completion callback).
Subtle is better than blatant, but the demo must still show a real violation of the property as stated.

Note: the file src/haiway/utils/queue.py contains verification hooks guarded by _VERIF (inert); leave those lines alone and keep them consistent if you move code around them.""")
