#!/bin/sh
# tools/try_seed_scratch.sh <seeded dir> [check ids...] - like try_seed.sh, but the seeded change is applied to a scratch
# worktree of /repo's HEAD (read by the checks through HAIWAY_SRC), so /repo itself is not touched - usable while another
# script owns /repo's working tree
set -u
D="$(cd "$1" && pwd)"; shift
HERE="$(cd "$(dirname "$0")/.." && pwd)"
IDS="$*"
[ -z "$IDS" ] && IDS=$(/venv/bin/python -c "import json,sys; print(json.load(open('$D/meta.json'))['property'])")
SCRATCH=$(mktemp -d)
TREE="$SCRATCH/tree"
git -C /repo worktree add -q --detach "$TREE" HEAD || exit 3
trap 'git -C /repo worktree remove --force "$TREE" 2>/dev/null; git -C /repo worktree prune; rm -rf "$SCRATCH"' EXIT
git -C "$TREE" apply "$D/patch.diff" || { echo "patch does not apply"; exit 3; }
export VERIF_EVIDENCE_DIR="$SCRATCH/ev" HAIWAY_SRC="$TREE/src"; mkdir -p "$SCRATCH/ev"
for id in $IDS; do
  out=$(cd "$HERE" && timeout 1200 ./check "$id" --tier "${TIER:-quick}" 2>&1); rc=$?
  n=$(printf '%s\n' "$out" | grep -c '^VIOLATION')
  case $rc in
    1) echo "$id CAUGHT ($n violation lines): $(printf '%s\n' "$out" | grep -m1 -A1 '^VIOLATION' | tail -1 | cut -c1-220)";;
    0) echo "$id MISSED";;
    *) echo "$id BROKEN rc=$rc: $(printf '%s\n' "$out" | tail -2 | cut -c1-300)";;
  esac
done
