#!/bin/sh
# tools/extras.sh [quick|thorough] - checks of specifications that go beyond the twenty listed properties (not in
# MANIFEST.json); their evidence goes to evidence_extras/ so that evidence/ holds the listed properties only
cd "$(dirname "$0")/.."
mkdir -p evidence_extras
for id in X01 X02; do
  VERIF_EVIDENCE_DIR="$PWD/evidence_extras" ./check $id --tier "${1:-quick}" || exit $?
done
