#!/venv/bin/python
"""prints the per-property table of DESIGN.md section 5 from the evidence files of the last (quick) run, and splices it
into DESIGN.md between the markers <!-- TABLE5 --> and <!-- /TABLE5 -->"""
import json
import os
import re

ROOT = os.path.dirname(os.path.dirname(os.path.abspath(__file__)))


def fmt(n):
    return f"{n:,}".replace(",", " ")


rows = ["| id | TLC legs (module/config: distinct states) | replay legs (edges covered → runs) | trace legs (traces / events) | wall |",
        "|---|---|---|---|---|"]
for i in range(1, 21):
    pid = f"C{i:02d}"
    p = os.path.join(ROOT, "evidence", pid + ".json")
    if not os.path.exists(p):
        continue
    e = json.load(open(p))
    c = e["coverage"]
    legs = [l for l in c.get("legs", []) if "conformance graph" not in l["cfg"] and not l["cfg"].startswith("mutant")]
    tl = "; ".join(f"{l['cfg'].replace('_' + e['tier'], '')}: {fmt(l['distinct'])}" for l in legs)
    rp = "; ".join(f"{r['cfg'].split('/')[-1].replace('_' + e['tier'], '')}: {fmt(r['edges_covered'])}"
                   + (f" (+{fmt(r['edges_alternative'])} alt)" if r.get("edges_alternative") else "")
                   + f" → {fmt(r['runs'])}" for r in c.get("replay", []))
    tv = "; ".join(f"{t['cfg'].split('/')[-1].replace('_' + e['tier'], '')}: {fmt(t['traces'])} / {fmt(t['events'])}"
                   for t in c.get("trace_validation", []) if "traces" in t)
    rows.append(f"| {pid} | {tl} | {rp} | {tv or '—'} | {e['wall_s']:.0f} s |")
table = "\n".join(rows)
p = os.path.join(ROOT, "DESIGN.md")
s = open(p).read()
if "<!-- TABLE5 -->" in s:
    s = re.sub(r"<!-- TABLE5 -->.*?<!-- /TABLE5 -->", "<!-- TABLE5 -->\n" + table + "\n<!-- /TABLE5 -->", s, flags=re.S)
    open(p, "w").write(s)
    print("DESIGN.md table updated")
else:
    print(table)
