import asyncio
from haiway import ctx

async def main():
    started = asyncio.Event()
    async def child():
        try:
            started.set()
            await asyncio.sleep(100)
        except asyncio.CancelledError:
            raise ValueError("error while being cancelled")
    after = []
    async def victim():
        async with ctx.scope("s"):
            ctx.spawn(child)
            await started.wait()
            ctx.cancel()          # requested, not yet delivered; the body ends normally
        after.append("ran past the scope")
        await asyncio.sleep(0)
        after.append("still running")
    t = asyncio.create_task(victim())
    try:
        await t
        print("victim finished normally", after, "cancelling()", t.cancelling())
    except asyncio.CancelledError:
        print("victim cancelled", after)
asyncio.run(main())
