import asyncio
from haiway import ctx

async def main():
    started = asyncio.Event()
    async def child():
        try:
            started.set()
            await asyncio.sleep(100)
        except asyncio.CancelledError:
            raise ValueError("error while being cancelled")
    after = []
    async def victim():
        async with ctx.scope("s"):
            ctx.spawn(child)
            await started.wait()
        # body finished normally; scope exit waits for child
        after.append("ran past the scope")
        await asyncio.sleep(0)
        after.append("still running")
    t = asyncio.create_task(victim())
    await started.wait()
    await asyncio.sleep(0); await asyncio.sleep(0)
    t.cancel()   # victim waits in scope exit for child
    try:
        await t
        print("victim finished normally", after, "cancelling()", t.cancelling())
    except asyncio.CancelledError:
        print("victim cancelled", after)
    except BaseException as e:
        print("victim raised", repr(e), after)
asyncio.run(main())
