------------------------------ MODULE Throttle ------------------------------
(***************************************************************************)
(* haiway.helpers.throttling.throttle (property C15), exact integer time.  *)
(*                                                                         *)
(* Callers arrive, queue FIFO on the wrapper's lock; the holder prunes     *)
(* window entries older than `period`, and if `limit` entries remain       *)
(* sleeps until the oldest leaves the window, records its own start,       *)
(* releases the lock and only then runs the wrapped function (whose        *)
(* duration and outcome are the environment's choice).                     *)
(* Internal actions: Decide (holder after acquiring the lock), Wake (the   *)
(* holder's sleep is over).  Environment: Arrive, Tick, FnEnd, Cancel.     *)
(***************************************************************************)
EXTENDS Naturals, Sequences, FiniteSets, TLC

CONSTANTS NCalls, Limits, Periods, MaxT, Bug,
          Late      \* BOOLEAN: calls arriving at the very instant a window slot frees (TickArrive) are explored

C == 1..NCalls

VARIABLES limit, period, pform,   \* configuration chosen in Init (pform: period given as float or timedelta)
          now,
          entries,     \* Seq(Nat): start times kept by the wrapper (its sliding window)
          lockq,       \* Seq(call) FIFO: the head holds the lock
          pc,          \* [C -> "idle" | "queued" | "sleeping" | "running" | "done" | "cancelled"]
          wake,        \* [C -> Nat] wake-up time of a sleeping holder
          arrived,     \* [C -> Nat]
          starts,      \* Seq of [c, t]: invocations of the wrapped function, in order
          res,         \* [C -> "none" | "val" | "exc" | "cancelled"] what each caller got
          obs

vars == <<limit, period, pform, now, entries, lockq, pc, wake, arrived, starts, res, obs>>
conf == <<limit, period, pform>>

Init == /\ limit \in Limits /\ period \in Periods /\ pform \in {"float", "timedelta"}
        /\ now = 0 /\ entries = <<>> /\ lockq = <<>>
        /\ pc = [c \in C |-> "idle"] /\ wake = [c \in C |-> 0] /\ arrived = [c \in C |-> 0]
        /\ starts = <<>> /\ res = [c \in C |-> "none"]
        /\ obs = [starts |-> <<>>, res |-> [c \in C |-> "none"]]

RECURSIVE Prune(_)
Prune(es) == IF es # <<>> /\ (IF Bug = "prune_lt" THEN es[1] + period < now ELSE es[1] + period <= now)
               THEN Prune(Tail(es)) ELSE es

Start(c) == /\ pc' = [pc EXCEPT ![c] = "running"]
            /\ starts' = Append(starts, [c |-> c, t |-> now])
            /\ lockq' = Tail(lockq)

(* internal: the lock holder prunes and either starts or goes to sleep *)
Decide(c) ==
  /\ lockq # <<>> /\ Head(lockq) = c /\ pc[c] = "queued"
  /\ LET es == Prune(entries)
         full == IF Bug = "gt_limit" THEN Len(es) > limit ELSE Len(es) >= limit IN
     IF full /\ Bug # "no_wait"
       THEN /\ pc' = [pc EXCEPT ![c] = "sleeping"]
            /\ wake' = [wake EXCEPT ![c] = IF Bug = "short" THEN es[1] + period - 1 ELSE es[1] + period]
            /\ entries' = es /\ UNCHANGED <<lockq, starts>>
       ELSE /\ Start(c) /\ entries' = Append(es, now) /\ UNCHANGED wake
  /\ UNCHANGED <<conf, now, arrived, res, obs>>

(* internal: the sleeping holder wakes, records its start and releases the lock *)
Wake(c) ==
  /\ pc[c] = "sleeping" /\ wake[c] <= now
  /\ Start(c) /\ entries' = Append(entries, now)
  /\ UNCHANGED <<conf, now, wake, arrived, res, obs>>

Internal == \E c \in C : Decide(c) \/ Wake(c)
InternalEnabled == \/ (lockq # <<>> /\ pc[Head(lockq)] = "queued")
                   \/ (\E c \in C : pc[c] = "sleeping" /\ wake[c] <= now)

Cur == [starts |-> starts, res |-> res]
Settle == /\ ~InternalEnabled /\ obs # Cur /\ obs' = Cur
          /\ UNCHANGED <<conf, now, entries, lockq, pc, wake, arrived, starts, res>>
Rest == ~InternalEnabled /\ obs = Cur

-----------------------------------------------------------------------------
(* environment; calls arrive in index order (the calls are interchangeable) *)
Arrive(c) ==
  /\ Rest /\ pc[c] = "idle" /\ \A d \in C : d < c => pc[d] # "idle"
  /\ now <= MaxT
  /\ pc' = [pc EXCEPT ![c] = "queued"] /\ lockq' = Append(lockq, c)
  /\ arrived' = [arrived EXCEPT ![c] = now]
  /\ UNCHANGED <<conf, now, entries, wake, starts, res, obs>>

Waiting == {c \in C : pc[c] \in {"queued", "sleeping"}}

Tick ==
  /\ Rest /\ (now < MaxT \/ Waiting # {})
  /\ now' = now + 1
  /\ UNCHANGED <<conf, entries, lockq, pc, wake, arrived, starts, res, obs>>

(* the clock reaches the next instant AND call c arrives at that very instant - after whatever was due then has been
   woken, before it has run on: the newcomer queues behind everyone who arrived earlier, whoever holds the lock or was
   just handed it *)
TickArrive(c) ==
  /\ Late /\ Rest /\ now < MaxT
  /\ pc[c] = "idle" /\ \A d \in C : d < c => pc[d] # "idle"
  /\ now' = now + 1
  /\ pc' = [pc EXCEPT ![c] = "queued"] /\ lockq' = Append(lockq, c)
  /\ arrived' = [arrived EXCEPT ![c] = now + 1]
  /\ UNCHANGED <<conf, entries, wake, starts, res, obs>>

(* the event loop runs LATE: two units pass at once (something blocked the loop), so whatever was due in between happens
   only now - a call that was waiting for its slot begins now, and now is what the window remembers *)
Jump ==
  /\ Late /\ Rest /\ (now + 1 < MaxT \/ Waiting # {})
  /\ now' = now + 2
  /\ UNCHANGED <<conf, entries, lockq, pc, wake, arrived, starts, res, obs>>

(* the wrapped function of call c finishes with a value or an exception *)
FnEnd(c, o) ==
  /\ Rest /\ pc[c] = "running"
  /\ pc' = [pc EXCEPT ![c] = "done"] /\ res' = [res EXCEPT ![c] = o]
  /\ UNCHANGED <<conf, now, entries, lockq, wake, arrived, starts, obs>>

(* the caller of a call still waiting for its turn is cancelled: it leaves the queue (releasing
   the lock if it held it) without starting and without consuming a slot of the window *)
Cancel(c) ==
  /\ Rest /\ pc[c] \in {"queued", "sleeping"}
  /\ pc' = [pc EXCEPT ![c] = "cancelled"] /\ res' = [res EXCEPT ![c] = "cancelled"]
  /\ lockq' = SelectSeq(lockq, LAMBDA d : d # c)
  /\ UNCHANGED <<conf, now, entries, wake, arrived, starts, obs>>

Controlled == \/ \E c \in C : Arrive(c) \/ TickArrive(c) \/ Cancel(c) \/ (\E o \in {"val", "exc"} : FnEnd(c, o))
              \/ Tick \/ Jump

Next == Internal \/ Settle \/ Controlled
Spec == Init /\ [][Next]_vars /\ WF_vars(Internal) /\ WF_vars(Settle) /\ WF_vars(Tick)

-----------------------------------------------------------------------------
TypeOK == /\ \A c \in C : pc[c] \in {"idle", "queued", "sleeping", "running", "done", "cancelled"}
          /\ Len(lockq) <= NCalls

(* C15: no more than `limit` invocations begin within any half-open window of length `period` *)
RateBound == \A i \in DOMAIN starts : (i + limit) \in DOMAIN starts =>
                 starts[i + limit].t - starts[i].t >= period

(* C15: calls begin in arrival order *)
ArrivalOrder == \A i, j \in DOMAIN starts : i < j => arrived[starts[i].c] <= arrived[starts[j].c]
                                                    /\ starts[i].c < starts[j].c

(* C15: a call is not delayed when fewer than `limit` calls began in the preceding period and
   no earlier call is waiting *)
NoNeedlessDelay == \A i \in DOMAIN starts :
    LET c == starts[i].c
        before == {j \in 1..(i-1) : starts[j].t + period > arrived[c]}
    IN (Cardinality(before) < limit /\ \A j \in 1..(i-1) : starts[j].t <= arrived[c])
         => starts[i].t = arrived[c]

(* never later than necessary either: a delayed call starts exactly when the window frees a slot *)
Transparent == \A c \in C : (pc[c] = "done") <=> (res[c] \in {"val", "exc"})

(* C15: every call eventually runs *)
EveryCallStarts == \A c \in C : (pc[c] = "queued") ~> (pc[c] \in {"running", "done", "cancelled"})
=============================================================================
