------------------------------- MODULE Scopes -------------------------------
(***************************************************************************)
(* haiway context: what a task sees (properties C01, C03, and the happy    *)
(* path of C02).  Per task a context triple                                 *)
(*    st : state environment (type -> value, 0 = not supplied) or no ctx    *)
(*    ms : innermost metrics scope id (0 = none)                            *)
(*    tg : innermost task group / async scope id (0 = none)                 *)
(* and a stack of frames, each remembering what the block supplied and the  *)
(* triple to restore.  Blocks: async scope (direct state + state yielded    *)
(* by its disposables), sync scope, state update.  Tasks are started with   *)
(* ctx.spawn (into the current group) or as plain asyncio tasks; both       *)
(* inherit a snapshot of the spawner's context.                             *)
(* Every action names its acting task; the other tasks must not notice.     *)
(* A block object may also be PREPARED in one place (ctx.scope(...) /       *)
(* ctx.updated(...) evaluated, the object kept) and entered later, by the   *)
(* same or by another task: what is visible inside is what the ENTERING     *)
(* task saw plus what the block supplies - nothing of the place where the   *)
(* object was made.  An async scope object cannot be entered twice: the     *)
(* second attempt is refused and leaves the surrounding context as it was.  *)
(***************************************************************************)
EXTENDS Naturals, Sequences, FiniteSets, TLC

CONSTANTS NTasks, Types, Vals, MaxDepth, MaxOps, SupKind, Bug,
          Prep       \* BOOLEAN: block objects prepared in one place and entered in another are explored
(* Types \subseteq {"A", "A2", "B"}: A and A2 (a subclass of A) are default-constructible,
   B has a required attribute *)

Tasks == 1..NTasks
DefaultOK == {"A", "A2"}
DEFAULT == 91  MISSING == 92  NOCTX == 93  EXPLICIT == 94

VARIABLES st,      \* [Tasks -> [Types -> 0..] ]  current environment
          on,      \* [Tasks -> BOOLEAN] a state context exists
          ms, tg,  \* [Tasks -> Nat]
          frames,  \* [Tasks -> Seq([kind, sup, sst, son, sms, stg, sid])]
          base,    \* [Tasks -> [st, on]] snapshot inherited at spawn (ghost, for LexicalLookup)
          pc,      \* [Tasks -> "unborn" | "gate" | "done"]
          grp,     \* [Tasks -> scope id the task was spawned into (0 = detached)]
          caught,  \* [Tasks -> "none" | "E" | "BaseE"] what the task's innermost catch-all caught last
          prep,    \* the prepared block object: [st: "none" | "ready" | "used", kind, sup, sid]
          nsid, nops, actor, obs

vars == <<st, on, ms, tg, frames, base, pc, grp, caught, prep, nsid, nops, actor, obs>>
PrepUpd == 98      \* block id of the prepared update object (99: its second, overlapping use)
NoPrep == [st |-> "none", kind |-> "none", sup |-> <<>>, sid |-> 0]

Pair == Types \X Vals
(* what one block may supply: a sequence of (type, value); "full" = all sequences up to length 2,
   "small" = a covering selection (nothing, one, same type twice, two types) *)
Sups == CASE SupKind = "full" ->
               {<<>>} \cup {<<p>> : p \in Pair} \cup {<<p, q>> : p \in Pair, q \in Pair}
          [] SupKind = "small" ->
               {<<>>} \cup {<<p>> : p \in Pair}
                 \cup {<<x[1], x[2]>> : x \in {y \in Pair \X Pair : y[1][2] # y[2][2]}}
          [] OTHER ->   \* "tiny": nothing, one, the same type twice (last wins), two types
               LET T1 == CHOOSE T \in Types : T \in DefaultOK
                   T2 == CHOOSE T \in Types : T # T1 IN
               {<<>>, <<<<T1, 1>>>>, <<<<T2, 1>>>>, <<<<T1, 1>>, <<T1, 2>>>>, <<<<T1, 2>>, <<T2, 2>>>>}

Empty == [T \in Types |-> 0]

RECURSIVE Merge(_, _)
Merge(env, sup) == IF sup = <<>> THEN env
                   ELSE Merge([env EXCEPT ![sup[1][1]] = sup[1][2]], Tail(sup))
MergeFirst(env, sup) == [T \in Types |-> IF env[T] # 0 THEN env[T] ELSE Merge(Empty, sup)[T]]  \* mutant
Supplies(sup, T) == \E i \in DOMAIN sup : sup[i][1] = T
LastOf(sup, T) == sup[CHOOSE i \in DOMAIN sup : sup[i][1] = T /\ \A j \in DOMAIN sup : sup[j][1] = T => j <= i][2]

Look(t, T) == IF ~on[t] THEN NOCTX
              ELSE IF st[t][T] # 0 THEN st[t][T]
              ELSE IF T \in DefaultOK THEN DEFAULT ELSE MISSING
LookD(t, T) == IF ~on[t] THEN NOCTX ELSE IF st[t][T] # 0 THEN st[t][T] ELSE EXPLICIT

ProbeOf(t) == [T \in Types |-> <<Look(t, T), LookD(t, T)>>]
View(t) == IF pc[t] = "gate" THEN [p |-> ProbeOf(t), ms |-> ms[t], tg |-> tg[t]]
           ELSE [p |-> [T \in Types |-> <<0, 0>>], ms |-> 0, tg |-> 0]
Observe == obs' = [t \in Tasks |-> [pc |-> pc'[t],
                                    p |-> IF pc'[t] = "gate"
                                            THEN [T \in Types |->
                                                    <<IF ~on'[t] THEN NOCTX ELSE IF st'[t][T] # 0 THEN st'[t][T]
                                                        ELSE IF T \in DefaultOK THEN DEFAULT ELSE MISSING,
                                                      IF ~on'[t] THEN NOCTX ELSE IF st'[t][T] # 0 THEN st'[t][T]
                                                        ELSE EXPLICIT>>]
                                            ELSE [T \in Types |-> <<0, 0>>],
                                    ms |-> IF pc'[t] = "gate" THEN ms'[t] ELSE 0,
                                    tg |-> IF pc'[t] = "gate" THEN tg'[t] ELSE 0,
                                    exc |-> caught'[t]]]

Init == /\ st = [t \in Tasks |-> Empty] /\ on = [t \in Tasks |-> FALSE]
        /\ ms = [t \in Tasks |-> 0] /\ tg = [t \in Tasks |-> 0]
        /\ frames = [t \in Tasks |-> <<>>]
        /\ base = [t \in Tasks |-> [st |-> Empty, on |-> FALSE]]
        /\ pc = [t \in Tasks |-> IF t = 1 THEN "gate" ELSE "unborn"]
        /\ grp = [t \in Tasks |-> 0] /\ caught = [t \in Tasks |-> "none"]
        /\ nsid = 0 /\ nops = 0 /\ actor = 1 /\ prep = NoPrep
        /\ obs = [t \in Tasks |-> [pc |-> IF t = 1 THEN "gate" ELSE "unborn",
                                   p |-> [T \in Types |-> IF t = 1 THEN <<NOCTX, NOCTX>> ELSE <<0, 0>>],
                                   ms |-> 0, tg |-> 0, exc |-> "none"]]

Op(t) == nops < MaxOps /\ nops' = nops + 1 /\ pc[t] = "gate" /\ actor' = t

(* enter a block.  kind "ascope": async scope - `direct` state then the state yielded by its
   disposable, later wins; "sscope": sync scope; "update": ctx.updated *)
EnterWith(t, kind, sup, sid) ==
  /\ frames' = [frames EXCEPT ![t] = Append(@, [kind |-> kind, sup |-> sup, sst |-> st[t], son |-> on[t],
                                                 sms |-> ms[t], stg |-> tg[t], sid |-> sid])]
  /\ st' = [st EXCEPT ![t] = IF Bug = "first_wins" THEN MergeFirst(@, sup) ELSE Merge(@, sup)]
  /\ on' = [on EXCEPT ![t] = TRUE]
  /\ ms' = [ms EXCEPT ![t] = IF kind \in {"update", "gen"} THEN @ ELSE sid]
  /\ tg' = [tg EXCEPT ![t] = IF kind = "ascope" THEN sid ELSE @]

Enter(t, kind, direct, disp) ==
  /\ Op(t) /\ Len(frames[t]) < MaxDepth
  /\ (kind # "ascope" => disp = <<>>)
  /\ EnterWith(t, kind, direct \o disp, IF kind = "update" THEN 0 ELSE nsid + 1)
  /\ nsid' = IF kind = "update" THEN nsid ELSE nsid + 1
  /\ UNCHANGED <<base, pc, grp, caught, prep>>
  /\ Observe

(* the block object is made (ctx.scope(...) / ctx.updated(...) evaluated) and kept for later; nothing is entered *)
Prepare(t, kind, direct) ==
  /\ Prep /\ Op(t) /\ prep.st = "none"
  /\ prep' = [st |-> "ready", kind |-> kind, sup |-> direct, sid |-> IF kind = "update" THEN PrepUpd ELSE nsid + 1]
  /\ nsid' = IF kind = "update" THEN nsid ELSE nsid + 1
  /\ UNCHANGED <<st, on, ms, tg, frames, base, pc, grp, caught>>
  /\ Observe

(* ... and entered - by whichever task: the state inside is the ENTERING task's plus what the block supplies *)
EnterPrepared(t) ==
  /\ Op(t) /\ prep.st = "ready" /\ Len(frames[t]) < MaxDepth
  /\ IF Bug = "bound_where_made" /\ prep.sup = <<>>        \* mutant: (shown on an object that supplies nothing)
       THEN /\ frames' = [frames EXCEPT ![t] = Append(@, [kind |-> prep.kind, sup |-> <<>>, sst |-> st[t], son |-> on[t],
                                                            sms |-> ms[t], stg |-> tg[t], sid |-> prep.sid])]
            /\ st' = [st EXCEPT ![t] = Empty] /\ on' = [on EXCEPT ![t] = TRUE]
            /\ ms' = [ms EXCEPT ![t] = IF prep.kind = "update" THEN @ ELSE prep.sid]
            /\ tg' = [tg EXCEPT ![t] = IF prep.kind = "ascope" THEN prep.sid ELSE @]
       ELSE EnterWith(t, prep.kind, prep.sup, prep.sid)
  /\ prep' = [prep EXCEPT !.st = "used"]
  /\ UNCHANGED <<base, pc, grp, caught, nsid>>
  /\ Observe

(* a state update held open by a GENERATOR (`with ctx.updated(...): yield`) that task t has advanced to its first yield:
   for t this is an update like any other (t leaves it by closing the generator).  If ANOTHER task u closes the generator
   the update's exit runs in u's context, where it was never entered: that is refused and u's context stays what it was
   (the behaviour ends there: what becomes of the misused generator's owner is not the library's affair). *)
GenEnter(t, sup) ==
  /\ Prep /\ Op(t) /\ prep.st = "none" /\ Len(frames[t]) < MaxDepth
  /\ EnterWith(t, "gen", sup, 0)
  /\ prep' = [st |-> "used", kind |-> "gen", sup |-> sup, sid |-> t]
  /\ UNCHANGED <<base, pc, grp, caught, nsid>>
  /\ Observe

GenCloseForeign(u) ==
  /\ Prep /\ nops < MaxOps /\ nops' = MaxOps /\ pc[u] = "gate" /\ actor' = u
  /\ prep.kind = "gen" /\ prep.sid # u /\ \E i \in DOMAIN frames[prep.sid] : frames[prep.sid][i].kind = "gen"
  /\ caught' = [caught EXCEPT ![u] = "refused"]
  /\ UNCHANGED <<st, on, ms, tg, frames, base, pc, grp, prep, nsid>>
  /\ Observe

(* a second attempt to enter the same async scope object - while it is still open, or after it was left - is refused
   (the refusal shows where a catch-all would show an exception) and the task's context is what it was.
   A prepared UPDATE object that is in use - entered by some task and not left yet - and is entered once more (by the same
   or by another task, their blocks overlapping): either that is refused and nothing changes for anybody, or it is a
   block of its own for the entering task - then each of the two is left like any other block, in whichever order, and
   each task gets back exactly the context it had (Restored).  (After it was left an update object may be used again.) *)
PrepOpen(sid) == \E w \in Tasks : \E i \in DOMAIN frames[w] : frames[w][i].sid = sid
ReEnter(t) ==
  /\ Op(t) /\ prep.st = "used"
  /\ \/ /\ prep.kind = "ascope" \/ (prep.kind = "update" /\ PrepOpen(PrepUpd) /\ ~PrepOpen(PrepUpd + 1))
        /\ caught' = [caught EXCEPT ![t] = "refused"]
        /\ UNCHANGED <<st, on, ms, tg, frames, base, pc, grp, prep, nsid>>
     \/ /\ prep.kind = "update" /\ PrepOpen(PrepUpd) /\ ~PrepOpen(PrepUpd + 1)      \* (not bounded by MaxDepth: the bound is no part of the statement)
        /\ EnterWith(t, "update", prep.sup, PrepUpd + 1)
        /\ UNCHANGED <<base, pc, grp, caught, prep, nsid>>
  /\ Observe

Live(s) == {u \in Tasks : grp[u] = s /\ pc[u] = "gate"}

(* leave the innermost block normally; an async scope can only be left here once the tasks
   spawned into it are done (waiting / cancellation on exit is modelled in ScopeTasks) *)
Leave(t) ==
  /\ Op(t) /\ frames[t] # <<>>
  /\ LET f == frames[t][Len(frames[t])] IN
     /\ (f.kind = "ascope" => Live(f.sid) = {})
     /\ st' = [st EXCEPT ![t] = IF Bug = "no_restore" THEN @ ELSE f.sst]
     /\ on' = [on EXCEPT ![t] = f.son]
     /\ ms' = [ms EXCEPT ![t] = f.sms] /\ tg' = [tg EXCEPT ![t] = f.stg]
     /\ frames' = [frames EXCEPT ![t] = SubSeq(@, 1, Len(@) - 1)]
  /\ UNCHANGED <<base, pc, grp, caught, nsid, prep>>
  /\ Observe

(* user code opens a catch-all (try / except BaseException) around what follows; the context is untouched *)
Try(t) ==
  /\ Op(t) /\ Len(frames[t]) < MaxDepth
  /\ frames' = [frames EXCEPT ![t] = Append(@, [kind |-> "try", sup |-> <<>>, sst |-> st[t], son |-> on[t],
                                                 sms |-> ms[t], stg |-> tg[t], sid |-> 0])]
  /\ UNCHANGED <<st, on, ms, tg, base, pc, grp, caught, nsid, prep>>
  /\ Observe

(* the body raises an Exception / a BaseException: every block up to the innermost catch-all is left by it - scopes,
   updates, several at once - and the catch-all sees that very exception with the context it had when it was opened *)
TryIdx(t) == CHOOSE i \in DOMAIN frames[t] : frames[t][i].kind = "try" /\ \A j \in DOMAIN frames[t] : frames[t][j].kind = "try" => j <= i
Raise(t, o) ==
  /\ Op(t) /\ \E i \in DOMAIN frames[t] : frames[t][i].kind = "try"
  /\ LET i == TryIdx(t)
         f == frames[t][i] IN
     /\ \A j \in i..Len(frames[t]) : frames[t][j].kind = "ascope" => Live(frames[t][j].sid) = {}
     /\ st' = [st EXCEPT ![t] = IF Bug = "no_restore" THEN @ ELSE f.sst]
     /\ on' = [on EXCEPT ![t] = f.son]
     /\ ms' = [ms EXCEPT ![t] = f.sms] /\ tg' = [tg EXCEPT ![t] = f.stg]
     /\ frames' = [frames EXCEPT ![t] = SubSeq(@, 1, i - 1)]
     /\ caught' = [caught EXCEPT ![t] = o]
  /\ UNCHANGED <<base, pc, grp, nsid, prep>>
  /\ Observe

(* start task u from t: ctx.spawn (how = "spawn": joins t's current group) or a plain asyncio
   task (how = "plain"); either way u inherits a snapshot of t's context *)
ScopeOpen(s) == \E w \in Tasks : \E i \in DOMAIN frames[w] : frames[w][i].sid = s
Start(t, u, how) ==
  /\ Op(t) /\ pc[u] = "unborn" /\ \A w \in Tasks : w < u => pc[w] # "unborn"
  \* ctx.spawn from a plain task that outlived the async scope it inherited hits a finished TaskGroup and raises
  \* RuntimeError (observed, judged by none of the properties): that corner is outside this model
  /\ (how = "spawn" => (tg[t] = 0 \/ ScopeOpen(tg[t])))
  /\ pc' = [pc EXCEPT ![u] = "gate"]
  /\ st' = [st EXCEPT ![u] = st[t]] /\ on' = [on EXCEPT ![u] = on[t]]
  /\ ms' = [ms EXCEPT ![u] = ms[t]] /\ tg' = [tg EXCEPT ![u] = IF Bug = "leak_group" THEN 0 ELSE tg[t]]
  /\ base' = [base EXCEPT ![u] = [st |-> st[t], on |-> on[t]]]
  /\ grp' = [grp EXCEPT ![u] = IF how = "spawn" THEN tg[t] ELSE 0]
  /\ UNCHANGED <<frames, caught, nsid, prep>>
  /\ Observe

(* a task with no open block ends *)
End(t) ==
  /\ Op(t) /\ frames[t] = <<>> /\ t # 1
  /\ pc' = [pc EXCEPT ![t] = "done"]
  /\ UNCHANGED <<st, on, ms, tg, frames, base, grp, caught, nsid, prep>>
  /\ Observe

Next == \E t \in Tasks :
          \/ \E kind \in {"ascope", "sscope", "update"}, sup \in Sups :
                 \E k \in (IF kind = "ascope" THEN 0..Len(sup) ELSE {Len(sup)}) :
                    Enter(t, kind, SubSeq(sup, 1, k), SubSeq(sup, k + 1, Len(sup)))
          \/ \E kind \in {"ascope", "sscope", "update"}, sup \in {x \in Sups : Len(x) <= 1} : Prepare(t, kind, sup)
          \/ EnterPrepared(t) \/ ReEnter(t)
          \/ (\E sup \in {x \in Sups : Len(x) = 1} : GenEnter(t, sup)) \/ GenCloseForeign(t)
          \/ Leave(t) \/ End(t) \/ Try(t) \/ \E o \in {"E", "BaseE"} : Raise(t, o)
          \/ \E u \in Tasks, how \in {"spawn", "plain"} : Start(t, u, how)
Spec == Init /\ [][Next]_vars

-----------------------------------------------------------------------------
TypeOK == /\ \A t \in Tasks : pc[t] \in {"unborn", "gate", "done"} /\ Len(frames[t]) <= MaxDepth + 1   \* (+1: a prepared update let in once more)

(* C01 / C03, stated over the frame stack and the inherited snapshot, not over the merged
   environment: the innermost enclosing block of the task's own chain that supplied exactly T,
   last instance within one block winning; else what was visible where the task was started *)
RECURSIVE Lexical(_, _, _)
Lexical(fs, b, T) ==
  IF fs = <<>> THEN b.st[T]
  ELSE LET f == fs[Len(fs)] IN
       IF Supplies(f.sup, T) THEN LastOf(f.sup, T) ELSE Lexical(SubSeq(fs, 1, Len(fs) - 1), b, T)

LexicalLookup ==
  \A t \in Tasks : pc[t] = "gate" =>
     /\ on[t] = ((\E i \in DOMAIN frames[t] : frames[t][i].kind # "try") \/ base[t].on)
     /\ \A T \in Types : st[t][T] = Lexical(frames[t], base[t], T)

(* C03: scopes and updates entered by one task are never visible to any other task *)
Isolation == [][\A u \in Tasks : (u # actor' /\ pc[u] = "gate" /\ pc'[u] = "gate")
                   => (st'[u] = st[u] /\ on'[u] = on[u] /\ ms'[u] = ms[u] /\ tg'[u] = tg[u])]_vars

(* C02 (normal exit): leaving a block restores exactly the surrounding triple *)
Restored == [][\A t \in Tasks : Len(frames'[t]) < Len(frames[t]) =>
                  LET f == frames[t][Len(frames'[t]) + 1] IN      \* the outermost block that was left
                  st'[t] = f.sst /\ on'[t] = f.son /\ ms'[t] = f.sms /\ tg'[t] = f.stg]_vars

(* the metrics scope / group a task sees is the innermost one of its own chain, else inherited *)
ScopeIdsFresh == \A t, u \in Tasks : \A i \in DOMAIN frames[t], j \in DOMAIN frames[u] :
                   (frames[t][i].sid # 0 /\ frames[t][i].sid = frames[u][j].sid) => (t = u /\ i = j)
=============================================================================
