-------------------------------- MODULE Stack --------------------------------
(***************************************************************************)
(* Composition of the helper decorators: an async function f wrapped in a  *)
(* stack of cache / retry / timeout / throttle layers (each at most once), *)
(* called sequentially on a virtual clock.  Every layer must act on what   *)
(* it wraps - the layer below, not f itself - so that                      *)
(*   - below a cache layer everything runs once (later calls share it);    *)
(*   - a timeout layer bounds the call whatever is below it, and what it   *)
(*     cancels is the layer below (a cache below keeps its invocation      *)
(*     running and serves it to later calls);                              *)
(*   - a retry layer repeats the layer below once on any Exception,        *)
(*     TimeoutError of a timeout layer below included;                     *)
(*   - a throttle layer delays the layer below.                            *)
(*                                                                         *)
(* One Call action evaluates a whole call (the calls are sequential; the   *)
(* only background activity is an invocation kept alive by the cache layer *)
(* after its caller timed out, which the cache entry's `ready` time        *)
(* represents).  Ties between a deadline and a completion in the same      *)
(* instant are excluded (`bad`), not guessed.                              *)
(*                                                                         *)
(* layers[1] wraps f, layers[Len(layers)] is what the caller calls.        *)
(* An invocation of f is described by <<duration, "ok" | "err">> handed to *)
(* the Call action; it yields <<"ok", k>> / <<"err", k>> for the k-th      *)
(* invocation.                                                             *)
(***************************************************************************)
EXTENDS Naturals, Sequences, FiniteSets, TLC

CONSTANTS Stacks,     \* set of layer sequences explored
          Gaps,       \* idle time before a call
          Durs,       \* durations of an invocation of f
          T, P,       \* timeout, throttle period (throttle limit 1, retry limit 1, cache limit 1 - one key)
          MaxCalls, MaxInv,
          Bug

VARIABLES layers, now, S, ncalls, obs
vars == <<layers, now, S, ncalls, obs>>

NoEntry == [has |-> FALSE, ready |-> 0, out |-> <<"none", 0>>]
Max(a, b) == IF a >= b THEN a ELSE b
Never == 1000000      \* the end time of an invocation nobody described

Init == /\ layers \in Stacks
        /\ now = 0 /\ ncalls = 0
        /\ S = [starts |-> <<>>, entry |-> NoEntry, thr |-> <<>>, sc |-> <<>>]
        /\ obs = [out |-> <<"none", 0>>, t0 |-> 0, te |-> 0, n |-> 0, starts |-> <<>>]

RECURSIVE Cleanup(_, _)
Cleanup(q, t) == IF q # <<>> /\ q[1] + P <= t THEN Cleanup(Tail(q), t) ELSE q

Below(i) == IF Bug = "unwrap" /\ i >= 2 THEN 0 ELSE i - 1     \* Bug: a layer acts on f itself instead of the layer below

RECURSIVE Eval(_, _, _), EvalC(_, _, _, _)
(* the call into layer i (0 = f) starting at time t in state s, run to completion: [out, te, s, bad] *)
Eval(i, t, s) ==
  IF i = 0 THEN
    \* no description left for this invocation: it is hypothetical - fine as long as a timeout layer above cuts the
    \* call off before the invocation would start (e.g. while a throttle layer in between makes it wait)
    IF s.sc = <<>> THEN [out |-> <<"none", 0>>, te |-> Never, s |-> s, bad |-> FALSE, hyp |-> TRUE]
    ELSE LET k == Len(s.starts) + 1 IN
         [out |-> <<Head(s.sc)[2], k>>, te |-> t + Head(s.sc)[1],
          s |-> [s EXCEPT !.starts = Append(@, t), !.sc = Tail(@)], bad |-> FALSE, hyp |-> FALSE]
  ELSE LET L == layers[i] IN
    CASE L = "cache" ->
           IF s.entry.has THEN [out |-> s.entry.out, te |-> Max(t, s.entry.ready), s |-> s, bad |-> FALSE, hyp |-> FALSE]
           ELSE LET r == Eval(Below(i), t, s) IN
                [r EXCEPT !.s = [r.s EXCEPT !.entry = [has |-> TRUE, ready |-> r.te, out |-> r.out]]]
      [] L = "retry" ->
           LET r1 == Eval(Below(i), t, s) IN
           IF r1.bad \/ r1.hyp \/ r1.out[1] = "ok" THEN r1
           ELSE Eval(Below(i), r1.te, r1.s)
      [] L = "timeout" ->
           LET r == Eval(Below(i), t, s) IN
           IF r.bad \/ r.te < t + T THEN r
           ELSE IF r.te = t + T THEN [r EXCEPT !.bad = TRUE]
           ELSE LET c == EvalC(Below(i), t, t + T, s) IN
                [out |-> <<"timeout", 0>>, te |-> t + T, s |-> c.s, bad |-> c.bad, hyp |-> FALSE]
      [] L = "throttle" ->
           LET ents == Cleanup(s.thr, t)
               ts == IF Len(ents) >= 1 THEN ents[1] + P ELSE t
           IN Eval(Below(i), ts, [s EXCEPT !.thr = Append(ents, ts)])

(* the same call cancelled at time tc, before it completed: the state it leaves behind [s, bad] *)
EvalC(i, t, tc, s) ==
  IF i = 0 THEN
    IF s.sc = <<>> \/ t >= tc THEN [s |-> s, bad |-> TRUE]
    ELSE [s |-> [s EXCEPT !.starts = Append(@, t), !.sc = Tail(@)], bad |-> FALSE]
  ELSE LET L == layers[i] IN
    CASE L = "cache" ->
           \* the invocation is shielded: it runs on and the entry serves its outcome to later calls
           IF s.entry.has THEN [s |-> s, bad |-> FALSE]
           ELSE LET r == Eval(Below(i), t, s) IN
                [s |-> [r.s EXCEPT !.entry = [has |-> TRUE, ready |-> r.te, out |-> r.out]], bad |-> r.bad \/ r.hyp]
      [] L = "retry" ->
           LET r1 == Eval(Below(i), t, s) IN
           IF r1.bad \/ (~r1.hyp /\ r1.te = tc) THEN [s |-> s, bad |-> TRUE]
           ELSE IF tc < r1.te THEN EvalC(Below(i), t, tc, s)
           ELSE EvalC(Below(i), r1.te, tc, r1.s)
      [] L = "timeout" -> [s |-> s, bad |-> TRUE]      \* one timeout layer only: nothing above cancels it
      [] L = "throttle" ->
           LET ents == Cleanup(s.thr, t)
               ts == IF Len(ents) >= 1 THEN ents[1] + P ELSE t
           IN IF tc < ts THEN [s |-> [s EXCEPT !.thr = ents], bad |-> FALSE]      \* cancelled while waiting its turn
              ELSE IF tc = ts THEN [s |-> s, bad |-> TRUE]
              ELSE EvalC(Below(i), ts, tc, [s EXCEPT !.thr = Append(ents, ts)])

Scripts == UNION {[1..n -> Durs \X {"ok", "err"}] : n \in 0..2}

(* one call through the whole stack after `gap` idle time; sc describes the invocations of f it starts (all of them,
   no more) *)
Call(gap, sc) ==
  /\ ncalls < MaxCalls /\ ncalls' = ncalls + 1
  /\ LET t == now + gap
         r == Eval(Len(layers), t, [S EXCEPT !.sc = sc])
     IN /\ ~r.bad /\ ~r.hyp /\ r.s.sc = <<>> /\ Len(r.s.starts) <= MaxInv
        /\ S' = r.s /\ now' = r.te
        \* invocations that the cache layer keeps running in the background may start after the call returned:
        \* the caller sees the starts so far
        \* (n: the starts since the previous call returned)
        /\ LET seen == SelectSeq(r.s.starts, LAMBDA x : x <= r.te)
           IN obs' = [out |-> r.out, t0 |-> t, te |-> r.te, n |-> Len(seen) - Len(obs.starts), starts |-> seen]
  /\ UNCHANGED layers

Next == \E gap \in Gaps, sc \in Scripts : Call(gap, sc)
Spec == Init /\ [][Next]_vars

-----------------------------------------------------------------------------
(* the sets of stacks the configurations choose from (Stacks <- ...) *)
Kinds == {"cache", "retry", "timeout", "throttle"}
Perms(n) == {q \in [1..n -> Kinds] : \A i, j \in 1..n : i # j => q[i] # q[j]}
(* what the library dispatches correctly: cache, retry and throttle decide sync / async by iscoroutinefunction(wrapped),
   which is true of a plain async function and of retry's closure but not of the cache / timeout / throttle wrapper
   objects; the timeout decorator does not look.  So a layer above the first must be a timeout layer or sit directly on
   a retry layer (the other stacks are refused or treated as synchronous functions - DESIGN.md 6.4) *)
Supported(q) == \A i \in 2..Len(q) : q[i] = "timeout" \/ q[i - 1] = "retry"
UpTo(n) == {q \in UNION {Perms(k) : k \in 1..n} : Supported(q)}
With(L, n) == {q \in UpTo(n) : \E i \in DOMAIN q : q[i] = L}
Stacks_all_2 == UpTo(2)
Stacks_all_3 == UpTo(3)
Stacks_all_4 == UpTo(4)
Stacks_cache_2 == With("cache", 2)
Stacks_cache_3 == With("cache", 3)
Stacks_retry_2 == With("retry", 2)
Stacks_retry_3 == With("retry", 3)
Stacks_timeout_2 == With("timeout", 2)
Stacks_timeout_3 == With("timeout", 3)
Stacks_throttle_2 == With("throttle", 2)
Stacks_throttle_3 == With("throttle", 3)

-----------------------------------------------------------------------------
Has(L) == \E i \in DOMAIN layers : layers[i] = L
Pos(L) == CHOOSE i \in DOMAIN layers : layers[i] = L
Above(L, M) == Has(L) /\ Has(M) /\ Pos(L) > Pos(M)

TypeOK == /\ layers \in UpTo(4) /\ now \in Nat /\ obs.out[1] \in {"none", "ok", "err", "timeout"}

(* whatever is below a cache layer runs once: f is invoked once, or twice when a retry layer sits below the cache *)
CacheSharesBelow == Has("cache") => Len(S.starts) <= (IF Above("cache", "retry") THEN 2 ELSE 1)
(* a timeout layer bounds its call: an outermost timeout layer bounds every call by T, under a retry layer by 2T
   (plus the throttle delay when a throttle layer sits above both) *)
TimeoutBounds == (Has("timeout") /\ Pos("timeout") = Len(layers)) => obs.te - obs.t0 < T + 1
TimeoutBoundsRetried == (Has("timeout") /\ Len(layers) = Pos("timeout") + 1 /\ layers[Len(layers)] = "retry")
                          => obs.te - obs.t0 < 2 * T + 1
(* a throttle layer anywhere spaces the invocations of f that pass through it: with the throttle directly around f,
   consecutive starts are at least P apart *)
ThrottleSpaces == (Has("throttle") /\ Pos("throttle") = 1) =>
                    \A i \in DOMAIN S.starts : i > 1 => S.starts[i] >= S.starts[i - 1] + P
(* the outcome delivered is the outcome of an invocation that happened, or the timeout layer's error *)
OutcomeOrigin == /\ obs.out[1] \in {"ok", "err"} => obs.out[2] \in 1..Len(S.starts)
                 /\ obs.out[1] = "timeout" => Has("timeout")
(* a retry layer on top (nothing but a timeout layer below it) never hands back a failure without a second attempt *)
RetryRetries == (layers \in {<<"retry">>, <<"timeout", "retry">>} /\ obs.out[1] \in {"err", "timeout"}) => obs.n = 2
=============================================================================
