------------------------------ MODULE Wrappers ------------------------------
(***************************************************************************)
(* haiway.helpers.asynchrony.asynchronous / wrap_async, helpers.tracing    *)
(* .traced and the metadata kept by every helper decorator (property C18). *)
(*                                                                         *)
(* One call through a wrapper, from a caller nested `depth` scopes deep.   *)
(* For `asynchronous` the wrapped function runs on an executor thread that *)
(* the environment releases (Finish); while it runs the event loop must    *)
(* keep serving other tasks (Heartbeat).  The function reports what it     *)
(* observed inside: the caller's state, whether it was on the loop thread, *)
(* whether its arguments arrived unchanged; it may change its own context. *)
(* The scenario is chosen in Init so that one run covers the whole table.  *)
(***************************************************************************)
EXTENDS Naturals, Sequences, FiniteSets, TLC

CONSTANTS Kinds, Sigs, MaxBeats, Bug
(* Kinds \subseteq {"asynchronous_fn", "asynchronous_method", "wrap_async_sync", "wrap_async_async",
                    "traced_sync", "traced_async"}
   Sigs  \subseteq {"pos", "kw", "defaults", "varargs"} *)

(* "aw": the function returns an awaitable object (a future) as its VALUE - the caller has to get that very object, not
   what awaiting it would give *)
Outcomes == {"val", "aw", "exc", "base"}
Decorators == {"asynchronous", "wrap_async", "traced", "cache", "retry", "throttle", "timeout"}
NOCTX == 93

VARIABLES kind, sig, outcome, depth, exec, sets,   \* scenario
          pc,      \* "idle" | "running" | "done"
          beats, obs

vars == <<kind, sig, outcome, depth, exec, sets, pc, beats, obs>>
scen == <<kind, sig, outcome, depth, exec, sets>>

IsThreaded == kind \in {"asynchronous_fn", "asynchronous_method"}
IsTraced == kind \in {"traced_sync", "traced_async"}
CallerSees == IF depth = 0 THEN NOCTX ELSE depth       \* scope k of the caller's nesting supplies A = k
DEFAULT == 91
(* traced opens a scope of its own around the function: with no caller scope at all the function
   then sees a default-constructed state instead of "no context" *)
FnSees == IF depth = 0 /\ kind \in {"traced_sync", "traced_async"} THEN DEFAULT ELSE CallerSees

None == [pc |-> "idle", res |-> "none", inside |-> <<0, "none", "none">>, beats |-> 0, cons |-> 0,
         traced |-> <<"none", "none", "none">>, meta |-> <<"none", "none", "none">>]

Init == /\ kind \in Kinds /\ sig \in Sigs /\ outcome \in Outcomes /\ depth \in 0..2
        /\ exec \in {"default", "explicit"} /\ sets \in BOOLEAN
        /\ (~IsThreaded => exec = "default" /\ ~sets)
        /\ pc = "idle" /\ beats = 0
        /\ obs = [None EXCEPT !.cons = CallerSees]

(* what the wrapped function observes while it runs *)
Inside == <<IF Bug = "method_loses_context" /\ kind = "asynchronous_method" THEN NOCTX ELSE FnSees,
            IF IsThreaded /\ Bug # "runs_on_loop" THEN "off_loop" ELSE "on_loop",
            "args_ok">>

Traced == IF IsTraced THEN <<"label_ok", "args_recorded", IF Bug = "result_not_recorded" THEN "none" ELSE outcome>>
          ELSE <<"none", "none", "none">>

Result == IF Bug = "swallow_exception" /\ outcome = "exc" THEN "val" ELSE outcome

(* the caller awaits the wrapped call; threaded kinds stay running until the thread is released *)
Call ==
  /\ pc = "idle"
  /\ UNCHANGED <<scen, beats>>
  /\ IF IsThreaded
       THEN /\ pc' = "running"
            /\ obs' = [None EXCEPT !.pc = "running", !.inside = Inside, !.cons = CallerSees]
       ELSE /\ pc' = "done"
            /\ obs' = [None EXCEPT !.pc = "done", !.res = Result, !.inside = Inside, !.cons = CallerSees, !.traced = Traced]

(* another task on the same loop makes progress while the thread runs *)
Heartbeat ==
  /\ pc = "running" /\ beats < MaxBeats
  /\ beats' = beats + 1 /\ UNCHANGED <<scen, pc>>
  /\ obs' = [obs EXCEPT !.beats = beats']

(* the executor thread is released: the function ends with its outcome, the caller resumes *)
Finish ==
  /\ pc = "running"
  /\ pc' = "done" /\ UNCHANGED <<scen, beats>>
  /\ obs' = [obs EXCEPT !.pc = "done", !.res = Result,
                        !.cons = IF Bug = "leaks_back" /\ sets THEN 9 ELSE CallerSees]

(* metadata of each helper decorator applied to a documented function *)
Decorate(d) ==
  /\ pc = "idle" /\ UNCHANGED <<scen, pc, beats>>
  /\ obs' = [None EXCEPT !.cons = CallerSees,
                         !.meta = <<"name_ok", "doc_ok", IF Bug = "no_wrapped" /\ d = "throttle" THEN "missing" ELSE "wrapped_ok">>]

Next == Call \/ Heartbeat \/ Finish \/ \E d \in Decorators : Decorate(d)
Spec == Init /\ [][Next]_vars

-----------------------------------------------------------------------------
TypeOK == pc \in {"idle", "running", "done"}

(* C18: arguments, result and raised exception are preserved *)
Transparent == /\ (pc = "done" => obs.res = outcome)
               /\ (obs.inside[3] # "none" => obs.inside[3] = "args_ok")
(* C18: runs off the event-loop thread ... *)
OffLoop == (IsThreaded /\ pc # "idle") => obs.inside[2] = "off_loop"
(* C18: ... so the loop keeps serving other tasks *)
LoopServes == (pc = "running" /\ beats < MaxBeats) => ENABLED Heartbeat
(* C18: the function observes the caller's scope state ... *)
SeesCallerState == pc # "idle" => obs.inside[1] = FnSees
(* C18: ... without leaking its own context changes back *)
NoLeakBack == obs.cons = CallerSees
(* C18: traced records arguments and outcome in a scope named after the function *)
TracedRecords == (IsTraced /\ pc = "done") => obs.traced = <<"label_ok", "args_recorded", outcome>>
(* C18: every helper decorator keeps name, docstring and the reference to the original *)
KeepsMetadata == obs.meta[1] # "none" => obs.meta = <<"name_ok", "doc_ok", "wrapped_ok">>
=============================================================================
