------------------------------ MODULE CacheLRU ------------------------------
(***************************************************************************)
(* Pure operators shared by Cache (C12) and CacheFlight (C13): the LRU     *)
(* table of haiway.helpers.caching as a sequence of entries                 *)
(* [key, inv, exp], least recently used first; exp = 0 means "never        *)
(* expires".                                                                *)
(***************************************************************************)
EXTENDS Naturals, Sequences, FiniteSets

Idx(es, key) == IF \E i \in DOMAIN es : es[i].key = key
                  THEN CHOOSE i \in DOMAIN es : es[i].key = key ELSE 0
Without(seq, i) == SubSeq(seq, 1, i - 1) \o SubSeq(seq, i + 1, Len(seq))

(* an entry is valid up to and including its expiry instant *)
Expired(e, now, bug) == e.exp # 0 /\ (IF bug = "expiry_le" THEN e.exp <= now ELSE e.exp < now)

Hit(es, key, now, bug) == LET i == Idx(es, key) IN i # 0 /\ ~Expired(es[i], now, bug)

(* table after a hit: the entry becomes most recently used *)
Touch(es, key, bug) == LET i == Idx(es, key) IN
                         IF bug = "fifo" THEN es ELSE Append(Without(es, i), es[i])

(* table after a miss was looked up: an expired entry for the key is dropped *)
Dropped(es, key) == LET i == Idx(es, key) IN IF i # 0 THEN Without(es, i) ELSE es

(* table after storing invocation n for key at time now; LRU evicted beyond the limit *)
Stored(es, key, n, now, expn, limit, bug) ==
  LET ins == Append(Dropped(es, key), [key |-> key, inv |-> n, exp |-> IF expn = 0 THEN 0 ELSE now + expn])
      over == IF bug = "ge_limit" THEN Len(ins) >= limit /\ Len(ins) > 1 ELSE Len(ins) > limit
  IN IF over THEN (IF bug = "evict_newest" THEN SubSeq(ins, 1, Len(ins) - 1) ELSE Tail(ins)) ELSE ins

(* the n most recently used distinct keys of a use history *)
RECURSIVE Recent(_, _)
Recent(h, n) == IF h = <<>> \/ n = 0 THEN {}
                ELSE LET k == h[Len(h)]
                         rest == SelectSeq(SubSeq(h, 1, Len(h) - 1), LAMBDA x : x # k)
                     IN {k} \cup Recent(rest, n - 1)
=============================================================================
