-------------------------------- MODULE Logs --------------------------------
(***************************************************************************)
(* haiway context logging (property C19).  A forest of scopes, each        *)
(* optionally given its own logger and / or its own trace id and a name    *)
(* from a family that includes the empty name and names containing         *)
(* %-formatting characters.  Every log call made through the context -     *)
(* is one action whose observation is the line that reached a handler      *)
(* (entering a scope is observed through a probe line logged right after   *)
(* entering; the library's own lifecycle lines are not part of the         *)
(* property and are ignored):                                              *)
(* which logger, which level, which trace id, which scope identifier,      *)
(* which text.                                                             *)
(* Loggers, trace ids and identifiers are named by the scope that          *)
(* introduced them (their origin), which is what inheritance is about.     *)
(***************************************************************************)
EXTENDS Naturals, Sequences, FiniteSets, TLC

CONSTANTS NTasks, N, MaxOps, Labels, Levels, Bug,
          Prep,        \* BOOLEAN: scope objects made in one place and entered in another are explored
          OwnTraces    \* what a scope may be given as its trace id: subset of {"no", "own", "empty"}
(* Labels \subseteq {"plain", "empty", "fmt", "pct"}; Levels \subseteq {"debug","info","warning","error"} *)

Tasks == 1..NTasks
S == 1..N
Texts == {"noargs", "args", "pct_noargs", "mapping", "tmpl_noargs"}   \* mapping: "%(name)s" with a single dict argument
(* "tmpl_noargs": the very text of "args" ("value %s and %d") logged WITHOUT arguments - it comes out as it is; the same
   text is logged with and without arguments in one scope, in either order *)

VARIABLES par,     \* [S -> 0..N]
          phase,   \* [S -> "new" | "made" | "entered" | "finished"]
          label,   \* [S -> Labels]
          lg,      \* [S -> [kind : "own" | "named", s : origin scope]]
          tr,      \* [S -> [given : BOOLEAN, s : origin scope]]
          cur, stack, saved, alive,
          nops, obs

vars == <<par, phase, label, lg, tr, cur, stack, saved, alive, nops, obs>>

NoLine == [lg |-> [kind |-> "none", s |-> 0], lvl |-> "none", tr |-> [given |-> FALSE, s |-> 0], label |-> "none",
           ident |-> 0, text |-> "none", exc |-> FALSE, res |-> "ok"]

Init == /\ par = [s \in S |-> 0] /\ phase = [s \in S |-> "new"] /\ label = [s \in S |-> "plain"]
        /\ lg = [s \in S |-> [kind |-> "none", s |-> 0]] /\ tr = [s \in S |-> [given |-> FALSE, s |-> 0]]
        /\ cur = [t \in Tasks |-> 0] /\ stack = [t \in Tasks |-> <<>>] /\ saved = [s \in S |-> 0]
        /\ alive = [t \in Tasks |-> IF t = 1 THEN "run" ELSE "unborn"]
        /\ nops = 0 /\ obs = NoLine

Op == nops < MaxOps /\ nops' = nops + 1

LineOf(s, lvl, text, exc) ==
  [lg |-> lg'[s], lvl |-> lvl, tr |-> tr'[s], label |-> label'[s], ident |-> s, text |-> text, exc |-> exc, res |-> "ok"]

RECURSIVE RootOf(_)
RootOf(s) == IF par[s] = 0 THEN s ELSE RootOf(par[s])

NextScope == CHOOSE s \in S : phase[s] = "new" /\ \A r \in S : phase[r] = "new" => s <= r

(* ctx.scope(name, logger=?, trace_id=?) is evaluated by t: the scope is registered under t's current scope, from which it
   takes its logger and trace id unless given its own *)
Register(t, s, lab, ownlog, owntrace) ==
  LET p == cur[t] IN
     /\ par' = [par EXCEPT ![s] = p]
     /\ label' = [label EXCEPT ![s] = lab]
     /\ lg' = [lg EXCEPT ![s] = IF ownlog THEN [kind |-> "own", s |-> s]
                                 ELSE IF p # 0 /\ Bug # "outermost_logger" THEN lg[p]
                                 ELSE IF p # 0 THEN lg[RootOf(p)]     \* mutant: the outermost scope's logger
                                 ELSE [kind |-> "named", s |-> s]]
     \* owntrace: "no" - none given; "own" - the caller's id; "empty" - the caller gives the EMPTY string: the library may
     \* read that as "none given" or as an id like any other (the property does not say), but nothing else
     /\ LET none == IF p # 0 /\ Bug # "fresh_trace" THEN tr[p] ELSE [given |-> FALSE, s |-> s]
            own == [given |-> TRUE, s |-> s] IN
        \E v \in (CASE owntrace = "own" -> {own} [] owntrace = "empty" -> {none, own} [] OTHER -> {none}) :
           tr' = [tr EXCEPT ![s] = v]

(* ... created and entered at once by t; the scope logs "Started..." *)
Open(t, lab, ownlog, owntrace) ==
  /\ Op /\ alive[t] = "run" /\ \E s \in S : phase[s] = "new"
  /\ LET s == NextScope IN
     /\ Register(t, s, lab, ownlog, owntrace)
     /\ phase' = [phase EXCEPT ![s] = "entered"]
     /\ saved' = [saved EXCEPT ![s] = cur[t]]
     /\ cur' = [cur EXCEPT ![t] = s]
     /\ stack' = [stack EXCEPT ![t] = Append(@, s)]
     /\ obs' = LineOf(s, "info", "noargs", FALSE)     \* the probe logged through the new scope
  /\ UNCHANGED alive

(* ... or made now and entered later, by whichever task: logger and trace id are those of the place where it was made *)
Make(t, lab, ownlog, owntrace) ==
  /\ Prep /\ Op /\ alive[t] = "run" /\ (\E s \in S : phase[s] = "new") /\ (\A s \in S : phase[s] # "made")
  /\ LET s == NextScope IN
     /\ Register(t, s, lab, ownlog, owntrace)
     /\ phase' = [phase EXCEPT ![s] = "made"]
  /\ UNCHANGED <<saved, cur, stack, alive>>
  /\ obs' = NoLine

EnterMade(t) ==
  /\ Op /\ alive[t] = "run" /\ \E s \in S : phase[s] = "made"
  /\ LET s == CHOOSE s \in S : phase[s] = "made" IN
     /\ phase' = [phase EXCEPT ![s] = "entered"]
     /\ saved' = [saved EXCEPT ![s] = cur[t]]
     /\ cur' = [cur EXCEPT ![t] = s]
     /\ stack' = [stack EXCEPT ![t] = Append(@, s)]
     /\ UNCHANGED <<par, label, lg, tr, alive>>
     /\ obs' = LineOf(s, "info", "noargs", FALSE)

(* leaving the innermost scope - its body returns, or the task is cancelled inside it and the cancellation is caught
   right outside the block; either way the task is back in the enclosing scope (nothing is logged by the environment) *)
Close(t, how) ==
  /\ Op /\ alive[t] = "run" /\ stack[t] # <<>>
  /\ LET s == stack[t][Len(stack[t])] IN
     /\ phase' = [phase EXCEPT ![s] = "finished"]
     /\ cur' = [cur EXCEPT ![t] = saved[s]]
     /\ stack' = [stack EXCEPT ![t] = SubSeq(@, 1, Len(@) - 1)]
     /\ UNCHANGED <<par, label, lg, tr, saved, alive>>
     /\ obs' = NoLine

(* a log call through the context: level x text form x optional exception *)
Log(t, lvl, text, exc) ==
  /\ Op /\ alive[t] = "run"
  /\ (exc => lvl # "info")                      \* log_info takes no exception
  /\ UNCHANGED <<par, phase, label, lg, tr, cur, stack, saved, alive>>
  /\ IF cur[t] = 0
       THEN obs' = [NoLine EXCEPT !.lg = [kind |-> "root", s |-> 0], !.lvl = lvl, !.text = text, !.exc = exc]
       ELSE IF Bug = "lost_on_format" /\ text \in {"args", "mapping"} /\ label[cur[t]] \in {"fmt", "pct"}
         THEN obs' = [LineOf(cur[t], lvl, "FORMAT-ERROR", exc) EXCEPT !.res = "ok"]
         ELSE obs' = LineOf(cur[t], IF Bug = "warning_as_error" /\ lvl = "warning" THEN "error" ELSE lvl, text, exc)

Start(t, u) ==
  /\ Op /\ alive[t] = "run" /\ alive[u] = "unborn" /\ \A w \in Tasks : w < u => alive[w] # "unborn"
  /\ alive' = [alive EXCEPT ![u] = "run"] /\ cur' = [cur EXCEPT ![u] = cur[t]]
  /\ UNCHANGED <<par, phase, label, lg, tr, stack, saved>>
  /\ obs' = NoLine

Next == \E t \in Tasks :
          \/ \E lab \in Labels, ol \in BOOLEAN, ot \in OwnTraces : Open(t, lab, ol, ot)
          \/ \E lab \in Labels, ol \in BOOLEAN, ot \in OwnTraces : Make(t, lab, ol, ot)
          \/ EnterMade(t)
          \/ \E how \in {"return", "cancel"} : Close(t, how)
          \/ \E lvl \in Levels, text \in Texts, exc \in BOOLEAN : Log(t, lvl, text, exc)
          \/ \E u \in Tasks : Start(t, u)
Spec == Init /\ [][Next]_vars

-----------------------------------------------------------------------------
TypeOK == \A s \in S : phase[s] \in {"new", "made", "entered", "finished"}

(* C19: the scope's own logger, else the nearest enclosing scope's, else one named after the outermost scope *)
RECURSIVE NearestOwn(_)
NearestOwn(s) == IF lg[s].kind = "own" /\ lg[s].s = s THEN s ELSE IF par[s] = 0 THEN 0 ELSE NearestOwn(par[s])
RECURSIVE Outermost(_)
Outermost(s) == IF par[s] = 0 THEN s ELSE Outermost(par[s])
LoggerRule == \A s \in S : phase[s] # "new" =>
                 IF NearestOwn(s) # 0 THEN lg[s] = [kind |-> "own", s |-> NearestOwn(s)]
                 ELSE lg[s] = [kind |-> "named", s |-> Outermost(s)]

(* C19: a nested scope uses the enclosing trace id unless given its own; an outermost one gets a fresh id *)
TraceInherited == \A s \in S : phase[s] # "new" =>
                     \/ (tr[s].given /\ tr[s].s = s)
                     \/ (par[s] # 0 /\ tr[s] = tr[par[s]])
                     \/ (par[s] = 0 /\ tr[s] = [given |-> FALSE, s |-> s])
TraceGivenOrInherited == \A s \in S : (phase[s] # "new" /\ par[s] # 0 /\ ~(tr[s].given /\ tr[s].s = s)) => tr[s] = tr[par[s]]

(* C19: emitted at the requested level, tagged with the scope's identifier; never raises; never lost *)
LineSane == /\ obs.res = "ok"
            /\ obs.text # "FORMAT-ERROR"
            /\ (obs.ident # 0 => (obs.lg = lg[obs.ident] /\ obs.tr = tr[obs.ident] /\ obs.label = label[obs.ident]))
=============================================================================
