------------------------------- MODULE Missing -------------------------------
(***************************************************************************)
(* haiway.types.missing (property C20): MISSING is a process-wide          *)
(* singleton under every way of obtaining it.                              *)
(*                                                                         *)
(* The scenario is a container shape holding MISSING at some depth (or     *)
(* MISSING itself, or a State instance with a Missing-typed attribute);    *)
(* an Obtain step applies one of the ways to get "another" missing value   *)
(* - calling the type, copy, deepcopy, a pickle round trip with protocol   *)
(* 0..5 - and observes how many Missing objects reachable in the result    *)
(* are NOT the one MISSING object.  Probe steps compare MISSING with       *)
(* look-alikes in both operand orders and evaluate the predicates.         *)
(***************************************************************************)
EXTENDS Naturals, Sequences, FiniteSets, TLC

CONSTANTS Shapes, Bug
(* Shapes \subseteq {"bare", "list", "tuple", "dict", "nested", "state", "state_in_list"} *)

Ops == {"call", "copy", "deepcopy", "pickle0", "pickle1", "pickle2", "pickle3", "pickle4", "pickle5"}
(* "claims_class": an object that is not MISSING but reports Missing as its __class__ (a mock with spec=Missing, a proxy) *)
(* "forged": a second genuine instance of the class, made behind the type's back (object.__new__(Missing), an old pickle
   stream that rebuilds by NEWOBJ): it is not the MISSING object, and MISSING is equal only to itself *)
LookAlikes == {"MISSING", "None", "False", "zero", "empty_str", "empty_tuple", "always_equal", "other_state", "claims_class",
               "forged"}

VARIABLES shape, nids, obs
vars == <<shape, nids, obs>>

Init == shape \in Shapes /\ nids = 1 /\ obs = [k |-> "init", fresh |-> 0, ok |-> "ok", eq |-> <<FALSE, FALSE>>, pred |-> <<"none", "none", "none">>, attrs |-> "none"]

(* one way of obtaining a missing value, applied to the scenario's shape *)
Obtain(op) ==
  /\ (op = "call" => shape = "bare")
  /\ LET made == IF Bug = "copy_makes_new" /\ op # "call" THEN 1 ELSE 0 IN
     /\ nids' = nids + made
     /\ \/ obs' = [k |-> "obtain", fresh |-> made, ok |-> "ok", eq |-> <<FALSE, FALSE>>, pred |-> <<"none", "none", "none">>,
                   attrs |-> "none"]
        \/ \* the property does not promise that State instances can be pickled at all: a refused round trip
           \* yields no missing value and is accepted; a successful one must keep the singleton
           /\ op \notin {"call", "copy", "deepcopy"} /\ shape \in {"state", "state_in_list"} /\ made = 0
           /\ obs' = [k |-> "obtain", fresh |-> 0, ok |-> "unpicklable", eq |-> <<FALSE, FALSE>>,
                      pred |-> <<"none", "none", "none">>, attrs |-> "none"]
  /\ shape' = shape

(* MISSING compared with x in both operand orders, and the predicates applied to x *)
Probe(x) ==
  /\ shape = "bare" /\ UNCHANGED <<shape, nids>>
  /\ LET same == x = "MISSING" IN
     \E mine \in (IF x = "forged" THEN BOOLEAN ELSE {same \/ x = "always_equal"}) :     \* (what the forged instance's own __eq__ says is its affair)
     obs' = [k |-> "probe", fresh |-> 0, ok |-> "ok",
             \* <<MISSING == x, x == MISSING>>; with x on the left the look-alike's own __eq__ decides, so an
             \* object whose __eq__ always answers True says True there - MISSING's side must still say False
             eq |-> <<IF Bug = "eq_any_falsy" /\ x \in {"None", "False", "zero"} THEN TRUE ELSE same,
                      mine>>,
             pred |-> <<IF same THEN "is_missing" ELSE "not_missing", IF same THEN "default" ELSE "value", "falsy">>,
             attrs |-> "none"]

(* truthiness and attribute access / modification on MISSING itself *)
Inspect ==
  /\ shape = "bare" /\ UNCHANGED <<shape, nids>>
  /\ obs' = [k |-> "inspect", fresh |-> 0, ok |-> "ok", eq |-> <<TRUE, TRUE>>, pred |-> <<"none", "none", "falsy">>,
             attrs |-> "rejected"]

Next == (\E op \in Ops : Obtain(op)) \/ (\E x \in LookAlikes : Probe(x)) \/ Inspect
Spec == Init /\ [][Next]_vars

-----------------------------------------------------------------------------
(* C20: every way of obtaining a missing value yields the one MISSING object *)
Singleton == nids = 1 /\ obs.fresh = 0
(* ... and the operation itself works on every shape (a copied state still validates) *)
ObtainWorks == obs.ok \in {"ok", "unpicklable"}
(* C20: equal only to itself, in both operand orders *)
EqOnlySelf == obs.k = "probe" => (obs.eq[1] <=> obs.pred[1] = "is_missing")
(* C20: the predicates and when_missing agree with identity *)
PredicatesAgree == obs.k = "probe" => ((obs.pred[1] = "is_missing") <=> (obs.pred[2] = "default"))
(* C20: falsy, rejects attribute access and modification *)
FalsyNoAttrs == obs.k = "inspect" => (obs.pred[3] = "falsy" /\ obs.attrs = "rejected")
=============================================================================
