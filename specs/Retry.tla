------------------------------- MODULE Retry -------------------------------
(***************************************************************************)
(* haiway.helpers.retries.retry (property C14), sync and async variant.    *)
(*                                                                         *)
(* One call through the wrapper.  The environment decides the outcome of   *)
(* every invocation of the wrapped function (Attempt(o)); the wrapper's    *)
(* reaction - return, re-raise, or pause and call again - is part of the   *)
(* same action because nothing else can interleave with it (the pause is   *)
(* observable through the clock and the sleep log only).                   *)
(* The configuration is chosen in Init so that one run covers them all.    *)
(***************************************************************************)
EXTENDS Naturals, Sequences, FiniteSets, TLC

CONSTANTS MaxLimit, Bug

Outcomes == {"ok", "caught", "sub", "other", "uncaught", "cancelled", "cancexc", "base"}
(* "caught"   : exactly a class named in `catching`
   "sub"      : a subclass of such a class
   "other"    : a second, unrelated class that only the tuple / set / all forms name
   "uncaught" : an Exception subclass no form but "all" (catching=Exception) names
   "cancelled": asyncio.CancelledError;  "base": another BaseException subclass
   "cancexc"  : a cancellation that is ALSO an instance of the caught class (class OperationCancelled(CancelledError,
                AppError)): a cancellation all the same - no form catches it *)

Forms == {"class", "tuple", "set", "tuple_with_cancelled", "related", "all", "bare", "empty_tuple", "empty_set"}
(* "empty_tuple" / "empty_set": catching=() / set() - nothing is caught, so nothing is retried *)
(* "related": a tuple naming a class AND one of its subclasses (E1, E1Sub) - the wider one decides *)
Delays == {"none", "int", "float", "fn"}
Modes == {"sync", "async"}

VARIABLES cfg,       \* [limit, form, delay, mode]
          calls,     \* invocations of the wrapped function so far
          attempt,   \* retries decided so far
          hist,      \* outcomes so far (ghost)
          pauses,    \* per retry: <<number of sleeps, total time slept>>
          status,    \* "running" | "returned" | "raised"
          result,    \* index of the invocation whose value / exception object reached the caller
          obs

vars == <<cfg, calls, attempt, hist, pauses, status, result, obs>>

Configs == { c \in [limit : 1..MaxLimit, form : Forms, delay : Delays, mode : Modes] :
               c.form = "bare" => (c.limit = 1 /\ c.delay = "none") }

Caught(c, o) ==
  CASE c.form \in {"empty_tuple", "empty_set"} -> FALSE
    [] c.form \in {"class", "related"} -> o \in {"caught", "sub"}
    [] c.form \in {"tuple", "set", "tuple_with_cancelled"} -> o \in {"caught", "sub", "other"}
    [] OTHER -> o \in {"caught", "sub", "other", "uncaught"}   \* all / bare: every Exception

(* value the configured delay yields for retry number n after the exception of invocation k *)
DelayOf(c, n, k) ==
  CASE c.delay = "none" -> <<0, 0>>
    [] c.delay = "int" -> <<1, 2>>
    [] c.delay = "float" -> <<1, 3>>
    [] OTHER -> <<1, 10 * n + k>>      \* delay function f(attempt, exc) = 10*attempt + index(exc)

(* pauses are taken BETWEEN consecutive attempts only: from the last invocation's end to the moment the caller has the
   outcome no pause is taken, no timer is made and no time passes (observed as <<sleeps / timers, time>>) *)
NoTail == <<0, 0>>
CANCELLED == 99      \* result: the caller's own cancellation came out (not an outcome of the wrapped function)

Init == /\ cfg \in Configs
        /\ calls = 0 /\ attempt = 0 /\ hist = <<>> /\ pauses = <<>>
        /\ status = "running" /\ result = 0
        /\ obs = [status |-> "start", calls |-> 0, pauses |-> <<>>, result |-> 0, tail |-> NoTail]

Retryable(o) ==
  /\ Caught(cfg, o) \/ (Bug = "retry_base" /\ o = "base")
  /\ IF Bug = "off_by_one" THEN attempt <= cfg.limit ELSE attempt < cfg.limit

Attempt(o) ==
  /\ status = "running"
  /\ calls' = calls + 1
  /\ hist' = Append(hist, o)
  /\ cfg' = cfg
  /\ IF o = "ok"
       THEN /\ status' = "returned" /\ result' = calls' /\ UNCHANGED <<attempt, pauses>>
       ELSE IF Retryable(o)
         THEN /\ attempt' = attempt + 1
              /\ pauses' = IF Bug = "no_pause" THEN Append(pauses, <<0, 0>>)
                           ELSE Append(pauses, DelayOf(cfg, attempt', calls'))
              /\ status' = "running" /\ result' = 0
         ELSE /\ status' = "raised" /\ result' = calls' /\ UNCHANGED <<attempt, pauses>>
  /\ obs' = [status |-> status', calls |-> calls', pauses |-> pauses', result |-> result', tail |-> NoTail]

(* the caller is cancelled while the async wrapper pauses between two attempts (only possible when a delay is configured:
   without one the wrapper does not suspend between attempts): the cancellation ends the call, nothing is called again *)
InPause == status = "running" /\ cfg.mode = "async" /\ cfg.delay # "none" /\ attempt >= 1 /\ Len(pauses) = attempt
CancelInPause ==
  /\ InPause
  /\ status' = "raised" /\ result' = CANCELLED
  /\ UNCHANGED <<cfg, calls, attempt, hist, pauses>>
  \* (the pause that was interrupted is not among the completed ones the caller can count)
  /\ obs' = [status |-> status', calls |-> calls, pauses |-> SubSeq(pauses, 1, Len(pauses) - 1), result |-> result', tail |-> NoTail]

Next == (\E o \in Outcomes : Attempt(o)) \/ CancelInPause
Spec == Init /\ [][Next]_vars

-----------------------------------------------------------------------------
(* Independent statement of C14 over the ghost history *)
Terminal(o) == o = "ok" \/ ~Caught(cfg, o)
FirstTerminal == IF \E i \in 1..Len(hist) : Terminal(hist[i])
                   THEN CHOOSE i \in 1..Len(hist) : Terminal(hist[i]) /\ \A j \in 1..(i-1) : ~Terminal(hist[j])
                   ELSE 0

TypeOK == /\ status \in {"running", "returned", "raised"} /\ calls \in 0..(MaxLimit + 1)

CallsBound == calls <= cfg.limit + 1

(* called until the first success, the first exception outside the caught set, or limit+1 calls *)
ExactAttempts ==
  (status # "running" /\ result # CANCELLED) =>
     /\ calls = Len(hist)
     /\ IF FirstTerminal # 0 THEN calls = FirstTerminal ELSE calls = cfg.limit + 1
(* and never stops early *)
NoEarlyStop == status = "running" => (FirstTerminal = 0 /\ calls <= cfg.limit)

(* the caller gets that success value or that last exception object itself *)
TrueLastOutcome ==
  (status # "running" /\ result # CANCELLED) => /\ result = calls
                                                /\ (status = "returned") = (hist[calls] = "ok")
(* a cancellation of the caller during a pause ends the call at once *)
CancelEndsCall == result = CANCELLED => (status = "raised" /\ calls = Len(hist))

(* cancellation and other non-Exception errors are never retried *)
NeverRetryBase == \A i \in 1..Len(hist) : hist[i] \in {"cancelled", "cancexc", "base"} => i = Len(hist) /\ status = "raised"

(* Retry refines its counting core (RetryCore.tla, proved for EVERY limit by Apalache's inductive check): outcomes the
   configuration catches are the core's "caught", everything else that is not a success is "final" *)
Core == INSTANCE RetryCore WITH limit <- cfg.limit
RefinesCore == Core!Spec

(* exactly one pause between consecutive attempts, of the configured length *)
PausesRight ==
  /\ Len(pauses) = attempt
  /\ (status # "running" /\ result # CANCELLED) => Len(pauses) = calls - 1
  /\ \A i \in 1..Len(pauses) : pauses[i] = DelayOf(cfg, i, i)
=============================================================================
