------------------------------- MODULE Queue -------------------------------
(***************************************************************************)
(* haiway.utils.queue.AsyncQueue with its single consumer (property C17).  *)
(*                                                                         *)
(* Grain: one action per public call (enqueue / finish / cancel /          *)
(* __anext__ up to its first suspension) plus the two ways a suspended     *)
(* consumer continues: the loop runs it (Wake) or it is cancelled          *)
(* (CancelRequest).  The hand-off future is modelled explicitly because    *)
(* the interesting states are those where it is already resolved but the   *)
(* consumer has not run yet.                                               *)
(***************************************************************************)
EXTENDS Naturals, Sequences, FiniteSets, TLC

CONSTANTS MaxEnq,      \* bound on the number of elements ever accepted
          MaxOps,      \* bound on the number of environment operations
          MaxInit,     \* the queue may be constructed with 0..MaxInit elements
          Bug          \* "none" or the name of a seeded design mutant

VARIABLES buf,        \* Seq(Nat): buffered elements
          waiter,     \* hand-off future [k : none|pending|val|exc, v]
          reason,     \* "none" | "stop" | "err" | "cancel"
          cons,       \* consumer: "idle" | "waiting" | "drained"
          enq,        \* history: all accepted elements, in order
          got,        \* history: all elements delivered to the consumer, in order
          creq,       \* the suspended consumer task has been asked to cancel
          nops,
          obs         \* what the last call returned / the consumer observed (+ is_finished)

vars == <<buf, waiter, reason, cons, enq, got, creq, nops, obs>>

Reasons == {"stop", "err", "cancel"}
W(k, v) == [k |-> k, v |-> v]
O(a) == [a |-> a, fin |-> reason # "none"]
OP(a) == [a |-> a, fin |-> reason' # "none"]

Init == /\ \E n \in 0..MaxInit : buf = [i \in 1..n |-> i] /\ enq = [i \in 1..n |-> i]
        /\ waiter = W("none", 0) /\ reason = "none" /\ cons = "idle"
        /\ got = <<>> /\ nops = 0 /\ creq = FALSE
        /\ obs = [a |-> <<"init">>, fin |-> FALSE]

NextElems(n) == [i \in 1..n |-> Len(enq) + i]
Step == nops < MaxOps /\ nops' = nops + 1 /\ cons # "drained"

(* producer: enqueue(e1, ..., en), n >= 1; the first element goes straight to a pending waiter *)
Enqueue(n) ==
  /\ Step
  /\ IF reason # "none"
       THEN /\ obs' = O(<<"enqueue", n, "RuntimeError">>)
            /\ UNCHANGED <<buf, waiter, reason, cons, enq, got, creq>>
       ELSE /\ Len(enq) + n <= MaxEnq
            /\ LET es == NextElems(n) IN
               /\ enq' = enq \o es
               /\ IF waiter.k = "pending"
                    THEN /\ waiter' = W("val", es[1])
                         /\ buf' = IF Bug = "dup_handoff" THEN buf \o es ELSE buf \o Tail(es)
                    ELSE /\ waiter' = waiter
                         /\ buf' = buf \o es
               /\ obs' = O(<<"enqueue", n, "ok">>)
               /\ UNCHANGED <<reason, cons, got, creq>>

(* finish() / finish(exception) / cancel(): first reason wins; buffered elements stay *)
Finish(r) ==
  /\ Step
  /\ IF reason # "none"
       THEN UNCHANGED <<buf, waiter, reason, cons, enq, got, creq>>
       ELSE /\ reason' = r
            /\ waiter' = IF waiter.k = "pending" THEN W("exc", r) ELSE waiter
            /\ buf' = IF Bug = "finish_clears" THEN <<>> ELSE buf
            /\ UNCHANGED <<cons, enq, got, creq>>
  /\ obs' = OP(<<"finish", r>>)

(* the consumer calls __anext__ and runs to its first suspension (or returns at once) *)
StartReceive ==
  /\ Step
  /\ cons = "idle"
  /\ IF buf # <<>>
       THEN /\ got' = Append(got, Head(buf)) /\ buf' = Tail(buf)
            /\ obs' = O(<<"recv", "val", Head(buf)>>)
            /\ UNCHANGED <<waiter, reason, cons, enq, creq>>
       ELSE IF reason # "none"
         THEN /\ obs' = O(<<"recv", "exc", reason>>)
              /\ UNCHANGED <<buf, waiter, reason, cons, enq, got, creq>>
         ELSE /\ waiter' = W("pending", 0) /\ cons' = "waiting"
              /\ obs' = O(<<"recv", "suspended">>)
              /\ UNCHANGED <<buf, reason, enq, got, creq>>

(* task.cancel() on the suspended consumer, before the loop runs again.  A still pending
   future is cancelled at once (so enqueue / finish no longer use it); a resolved one is kept
   and the cancellation is delivered when the task next runs. *)
CancelRequest ==
  /\ Step
  /\ cons = "waiting" /\ ~creq
  /\ creq' = TRUE
  /\ waiter' = IF waiter.k = "pending" THEN W("cancelled", 0) ELSE waiter
  /\ obs' = O(<<"cancelreq">>)
  /\ UNCHANGED <<buf, reason, cons, enq, got>>

(* the event loop runs: a consumer whose future is done wakes up.  With a cancel request it
   ends cancelled; an element already handed to the future must not be lost - it returns to
   the head of the buffer. *)
Wake ==
  /\ cons = "waiting" /\ waiter.k # "pending"
  /\ nops' = nops
  /\ cons' = "idle" /\ waiter' = W("none", 0) /\ creq' = FALSE
  /\ IF creq
       THEN /\ got' = got /\ obs' = O(<<"wake", "cancelled", 0>>)
            /\ buf' = IF waiter.k = "val" /\ Bug # "lost_on_cancel" THEN <<waiter.v>> \o buf ELSE buf
       ELSE /\ buf' = buf
            /\ IF waiter.k = "val"
                 THEN /\ got' = Append(got, waiter.v) /\ obs' = O(<<"wake", "val", waiter.v>>)
                 ELSE /\ got' = got /\ obs' = O(<<"wake", "exc", waiter.v>>)
  /\ UNCHANGED <<reason, enq>>

(* epilogue, enabled in every state (also beyond MaxOps): cancel a pending receive, finish the
   queue, receive until the finish reason shows.  Exposes the hidden buffer of every state. *)
Drain ==
  /\ cons # "drained"
  /\ LET back == IF cons = "waiting" /\ waiter.k = "val" /\ Bug # "lost_on_cancel"
                   THEN <<waiter.v>> \o buf ELSE buf
         r == IF reason = "none" THEN "stop" ELSE reason
     IN /\ obs' = [a |-> <<"drain", back, r>>, fin |-> TRUE]
        /\ got' = got \o back
        /\ reason' = r
  /\ buf' = <<>> /\ waiter' = W("none", 0) /\ cons' = "drained" /\ creq' = FALSE
  /\ UNCHANGED <<enq, nops>>

Next == \/ \E n \in 1..2 : Enqueue(n)
        \/ \E r \in Reasons : Finish(r)
        \/ StartReceive \/ CancelRequest \/ Wake \/ Drain

Spec == Init /\ [][Next]_vars /\ WF_vars(Wake)

-----------------------------------------------------------------------------
InFlight == IF waiter.k = "val" THEN <<waiter.v>> ELSE <<>>

TypeOK == /\ cons \in {"idle", "waiting", "drained"}
          /\ reason \in Reasons \cup {"none"}
          /\ waiter.k \in {"none", "pending", "val", "exc", "cancelled"}
          /\ creq \in BOOLEAN

(* C17: nothing lost, duplicated or reordered - at every moment *)
NoLoss == got \o InFlight \o buf = enq

(* C17: once drained, exactly the accepted elements were received, in order *)
DrainedAll == cons = "drained" => got = enq

(* C17: after finish the reason is what an empty receive reports, and enqueue is refused *)
AfterFinish ==
  /\ (obs.a[1] = "recv" /\ Len(obs.a) = 3 /\ obs.a[2] = "exc") => (obs.a[3] = reason /\ buf = <<>>)
  /\ (obs.a[1] = "enqueue" /\ obs.a[3] = "RuntimeError") => reason # "none"

WaiterSane == (cons # "waiting") => (waiter.k = "none" /\ ~creq)

(* first finish reason is never replaced *)
ReasonStable == [][reason # "none" => reason' = reason]_vars

(* delivered history only grows *)
GotAppendOnly == [][Len(got') >= Len(got) /\ SubSeq(got', 1, Len(got)) = got]_vars

(* a resolved receive is eventually consumed *)
Resolved == cons = "waiting" /\ waiter.k # "pending"
EventuallyWoken == Resolved ~> ~Resolved
=============================================================================
