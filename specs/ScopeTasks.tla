------------------------------ MODULE ScopeTasks ------------------------------
(***************************************************************************)
(* Structured concurrency and cancellation of haiway scopes (properties    *)
(* C06 and C07).  Tasks open asynchronous scopes (each owning an asyncio   *)
(* TaskGroup) and synchronous scopes, spawn tasks through the context      *)
(* (into the innermost async scope on the spawner's chain - inherited by   *)
(* tasks it spawns - or detached when there is none), leave scopes,        *)
(* end, fail, and are cancelled - from outside or through ctx.cancel().    *)
(*                                                                         *)
(* All tasks obey cancellation, so an abort cascades at once through the   *)
(* scopes a dying task has open (Doomed).  The only place a task is        *)
(* blocked inside the library is "waiting": it left an async scope         *)
(* normally and the group waits for the members still running.             *)
(***************************************************************************)
EXTENDS Naturals, Sequences, FiniteSets, TLC

CONSTANTS NTasks, MaxDepth, MaxScopes, MaxOps, Bug,
          Turn      \* BOOLEAN: a task may answer a cancellation with an exception of its own (SetTurn)

Tasks == 1..NTasks
Sids == 1..MaxScopes

VARIABLES pc,       \* [Tasks -> unborn | gate | waiting | done | failed | cancelled]
          stack,    \* [Tasks -> Seq([sid, async])] scopes the task has open, innermost last
          tg,       \* [Tasks -> 0..MaxScopes] innermost async scope visible to the task (inherited or own)
          grp,      \* [Tasks -> 0..MaxScopes] group the task was spawned into (0 = detached)
          origin,   \* [Tasks -> 0..MaxScopes] ghost: the group that was current where the task was spawned
          owner,    \* [Sids -> 0..NTasks]
          residue,  \* [Tasks -> BOOLEAN] an internal TaskGroup cancel was absorbed while waiting (stdlib leaves cancelling() > 0)
          extc,     \* [Tasks -> BOOLEAN] ghost: the task was asked to cancel (asyncio or ctx.cancel)
          will,     \* [Tasks -> BOOLEAN] the task will ctx.spawn one more task from its CancelledError handler
          turn,     \* [Tasks -> BOOLEAN] the task's CancelledError handler raises an ordinary exception instead: cancelled, it FAILS
          nsid, nops, obs

vars == <<pc, stack, tg, grp, origin, owner, residue, extc, will, turn, nsid, nops, obs>>

Live(p) == {t \in Tasks : p[t] \in {"gate", "waiting"}}
AsyncOf(t) == {stack[t][i].sid : i \in {j \in DOMAIN stack[t] : stack[t][j].async}}
Members(p, s) == {u \in Live(p) : grp[u] = s}

Init == /\ pc = [t \in Tasks |-> IF t = 1 THEN "gate" ELSE "unborn"]
        /\ stack = [t \in Tasks |-> <<>>] /\ tg = [t \in Tasks |-> 0] /\ grp = [t \in Tasks |-> 0]
        /\ origin = [t \in Tasks |-> 0]
        /\ owner = [s \in Sids |-> 0]
        /\ residue = [t \in Tasks |-> FALSE] /\ extc = [t \in Tasks |-> FALSE] /\ will = [t \in Tasks |-> FALSE]
        /\ turn = [t \in Tasks |-> FALSE]
        /\ nsid = 0 /\ nops = 0
        /\ obs = [pc |-> [t \in Tasks |-> IF t = 1 THEN "gate" ELSE "unborn"], check |-> "none"]

Op(t) == nops < MaxOps /\ nops' = nops + 1 /\ pc[t] = "gate"

(* tasks that die when the tasks in `seed` die: members of every async scope a dying task has open *)
RECURSIVE Doomed(_, _)
Doomed(p, set) ==
  LET more == {u \in Live(p) : \E t \in set : grp[u] \in AsyncOf(t)} IN
  IF more \subseteq set THEN set ELSE Doomed(p, set \cup more)

(* the task-group reaction to the failure of member u of scope s owned by o:
   - o waiting on s itself: the group is aborted (siblings die), o absorbs the internal cancel;
   - otherwise o is cancelled by the group and dies with everything it has open. *)
FailureVictims(p, u) ==
  LET s == grp[u]
      o == IF s = 0 THEN 0 ELSE owner[s] IN
  IF s = 0 \/ o = 0 \/ o \notin Live(p) THEN {}
  ELSE IF p[o] = "waiting" /\ stack[o][Len(stack[o])].sid = s
    THEN Doomed(p, Members(p, s) \ {u})
    ELSE Doomed(p, {o})

(* after deaths: waiting tasks whose group has no live member left resume after the block *)
RECURSIVE SettleG(_, _, _, _)
SettleG(p, st, g, gr) ==
  LET ready == {t \in Tasks : p[t] = "waiting" /\ {u \in Live(p) : gr[u] = st[t][Len(st[t])].sid} = {}} IN
  IF ready = {} THEN [pc |-> p, stack |-> st, tg |-> g]
  ELSE LET t == CHOOSE w \in ready : TRUE
           top == st[t][Len(st[t])]
           st2 == [st EXCEPT ![t] = SubSeq(@, 1, Len(@) - 1)]
           g2 == [g EXCEPT ![t] = top.stg]
       IN SettleG([p EXCEPT ![t] = "gate"], st2, g2, gr)
Settle(p, st, g) == SettleG(p, st, g, grp)

Apply(p, st, g, chk) ==
  LET r == Settle(p, st, g) IN
  /\ pc' = r.pc /\ stack' = r.stack /\ tg' = r.tg
  /\ obs' = [pc |-> r.pc, check |-> chk]

(* A task that dies cancelled at its gate may, in its CancelledError handler, spawn one more task through the context
   (at most one task has such a will, and it has no async scope of its own, so the target is the group g it
   inherited).  Outside any group the heir is detached; a group that is being aborted - its owner is dying, or a member
   just failed - refuses it; otherwise (the task was cancelled on its own) the heir joins the group. *)
Unborn == {u \in Tasks : pc[u] = "unborn"}
Heir == CHOOSE u \in Unborn : \A w \in Unborn : u <= w
Testators(dead) == {t \in dead : will[t] /\ pc[t] = "gate"}
Inherit(p, dead, aborting) ==
  IF Testators(dead) = {} \/ Unborn = {} THEN [pc |-> p, grp |-> grp, tg |-> tg, origin |-> origin]
  ELSE LET t == CHOOSE x \in Testators(dead) : TRUE
           g == tg[t]
           refused == g # 0 /\ g \in aborting /\ Bug # "will_detached"
           target == IF g \in aborting THEN 0 ELSE g IN
       IF refused THEN [pc |-> p, grp |-> grp, tg |-> tg, origin |-> origin]
       ELSE [pc |-> [p EXCEPT ![Heir] = "gate"], grp |-> [grp EXCEPT ![Heir] = target], tg |-> [tg EXCEPT ![Heir] = target],
             origin |-> [origin EXCEPT ![Heir] = g]]
ScopesOf(set) == UNION {AsyncOf(t) : t \in set}

Kill(p, set, how) == [t \in Tasks |-> IF t \in set THEN how[t] ELSE p[t]]
(* how a task that is cancelled ends: cancelled - or failed, when its own handler turns the cancellation into an error
   (that is user code catching it; the task group it belongs to is being aborted anyway, so nothing else follows) *)
Dies(x) == IF turn[x] THEN "failed" ELSE "cancelled"

ApplyDeaths(p, dead, aborting, chk) ==
  LET h == Inherit(p, dead, aborting)
      r == SettleG(h.pc, stack, h.tg, h.grp) IN
  /\ pc' = r.pc /\ stack' = r.stack /\ tg' = r.tg /\ grp' = h.grp /\ origin' = h.origin
  \* a will goes with its task: executed (cancelled at its gate) or void (the task failed / ended otherwise)
  /\ will' = [t \in Tasks |-> will[t] /\ t \notin dead /\ r.pc[t] \in {"gate", "waiting"}]
  /\ turn' = [t \in Tasks |-> turn[t] /\ r.pc[t] \in {"gate", "waiting"}]
  /\ obs' = [pc |-> r.pc, check |-> chk]

-----------------------------------------------------------------------------
(* open an async scope (own task group) or a sync scope *)
Open(t, isAsync) ==
  /\ Op(t) /\ Len(stack[t]) < MaxDepth /\ nsid < MaxScopes
  /\ (isAsync => ~will[t]) /\ ~turn[t]
  /\ nsid' = nsid + 1
  /\ owner' = [owner EXCEPT ![nsid + 1] = t]
  /\ Apply(pc, [stack EXCEPT ![t] = Append(@, [sid |-> nsid + 1, async |-> isAsync, stg |-> tg[t]])],
           [tg EXCEPT ![t] = IF isAsync THEN nsid + 1 ELSE @], "none")
  /\ UNCHANGED <<grp, origin, residue, extc, will, turn>>

(* the task announces: "if I get cancelled, my handler spawns one more task" *)
SetWill(t) ==
  /\ Op(t) /\ AsyncOf(t) = {} /\ \A u \in Tasks : ~will[u]
  /\ Unborn # {} /\ ~turn[t]
  /\ will' = [will EXCEPT ![t] = TRUE]
  /\ Apply(pc, stack, tg, "none")
  /\ UNCHANGED <<grp, origin, owner, residue, extc, turn, nsid>>

(* the task announces: "if I get cancelled, my handler raises an error of my own" (a leaf task: no scopes of its own; it
   is only ever cancelled together with the scope it was spawned into) *)
SetTurn(t) ==
  /\ Turn /\ Op(t) /\ t # 1 /\ stack[t] = <<>> /\ ~will[t] /\ \A u \in Tasks : ~turn[u]
  /\ turn' = [turn EXCEPT ![t] = TRUE]
  /\ Apply(pc, stack, tg, "none")
  /\ UNCHANGED <<grp, origin, owner, residue, extc, will, nsid>>

(* ctx.spawn: into the innermost async scope visible to t; detached when there is none *)
Spawn(t, u) ==
  /\ Op(t) /\ pc[u] = "unborn" /\ \A w \in Tasks : w < u => pc[w] # "unborn"
  /\ grp' = [grp EXCEPT ![u] = IF Bug = "spawn_detached" THEN 0 ELSE tg[t]]
  /\ origin' = [origin EXCEPT ![u] = tg[t]]
  /\ Apply([pc EXCEPT ![u] = "gate"], stack, [tg EXCEPT ![u] = tg[t]], "none")
  /\ UNCHANGED <<owner, residue, extc, will, turn, nsid>>

(* leave the innermost scope normally; an async scope waits for its members *)
Leave(t) ==
  /\ Op(t) /\ stack[t] # <<>>
  /\ LET top == stack[t][Len(stack[t])] IN
     IF top.async /\ Bug # "no_wait"
       THEN Apply([pc EXCEPT ![t] = "waiting"], stack, tg, "none")
       ELSE LET st2 == [stack EXCEPT ![t] = SubSeq(@, 1, Len(@) - 1)] IN
            Apply(pc, st2, [tg EXCEPT ![t] = top.stg], "none")
  /\ UNCHANGED <<grp, origin, owner, residue, extc, will, turn, nsid>>

(* the task's coroutine returns (no scope open) *)
End(t) ==
  /\ Op(t) /\ stack[t] = <<>> /\ t # 1
  /\ Apply([pc EXCEPT ![t] = "done"], stack, tg, "none")
  /\ will' = [will EXCEPT ![t] = FALSE] /\ turn' = [turn EXCEPT ![t] = FALSE]
  /\ UNCHANGED <<grp, origin, owner, residue, extc, nsid>>

(* the task raises an Exception at its gate: every scope it has open is left with that error -
   members die - the task fails, and the group it belongs to reacts *)
Fail(t) ==
  /\ Op(t) /\ t # 1
  /\ LET dead == Doomed(pc, {t})
         p1 == Kill(pc, dead, [x \in Tasks |-> IF x = t THEN "failed" ELSE Dies(x)])
         vict == FailureVictims(p1, t)
         o == IF grp[t] = 0 THEN 0 ELSE owner[grp[t]]
         p2 == Kill(p1, vict, [x \in Tasks |-> Dies(x)])
         alldead == dead \cup vict
         aborting == ScopesOf(alldead) \cup (IF grp[t] = 0 THEN {} ELSE {grp[t]})
     IN /\ residue' = [residue EXCEPT ![o] = IF o # 0 /\ o \in Live(p2) /\ p1[o] = "waiting" THEN TRUE ELSE @]
        /\ ApplyDeaths(p2, alldead \ {t}, aborting, "none")
  /\ UNCHANGED <<owner, extc, nsid>>

(* task.cancel() from outside on a task at its gate or waiting for members: it dies cancelled
   together with everything spawned into the scopes it has open *)
Cancel(t) ==
  /\ nops < MaxOps /\ nops' = nops + 1 /\ pc[t] \in {"gate", "waiting"} /\ ~turn[t]
  /\ extc' = [extc EXCEPT ![t] = TRUE]
  /\ IF Bug = "swallow_wait_cancel" /\ pc[t] = "waiting"
       THEN LET dead == Doomed(pc, {t}) \ {t} IN
            ApplyDeaths(Kill(pc, dead, [x \in Tasks |-> Dies(x)]), dead, ScopesOf(dead \cup {t}), "none")
       ELSE LET dead == Doomed(pc, {t}) IN
            ApplyDeaths(Kill(pc, dead, [x \in Tasks |-> Dies(x)]), dead, ScopesOf(dead), "none")
  /\ UNCHANGED <<owner, residue, nsid>>

(* the task calls ctx.cancel() and then ctx.check_cancellation() before its next suspension:
   the check raises; the cancellation is delivered at the next suspension point *)
CtxCancel(t) ==
  /\ Op(t) /\ ~turn[t]
  /\ extc' = [extc EXCEPT ![t] = TRUE]
  /\ LET dead == Doomed(pc, {t}) IN
     ApplyDeaths(Kill(pc, dead, [x \in Tasks |-> Dies(x)]), dead, ScopesOf(dead),
                 IF Bug = "check_never" THEN "passed" ELSE "raised")
  /\ UNCHANGED <<owner, residue, nsid>>

(* ctx.check_cancellation() by a task nobody asked to cancel: does not raise.  After an absorbed
   internal TaskGroup cancel CPython 3.12 leaves cancelling() > 0: either answer is accepted then. *)
Check(t) ==
  /\ Op(t)
  /\ \E answer \in {"passed", "raised"} :
        /\ (answer = "raised" => residue[t])
        /\ Apply(pc, stack, tg, answer)
  /\ UNCHANGED <<grp, origin, owner, residue, extc, will, turn, nsid>>

Next == \E t \in Tasks :
          \/ \E a \in BOOLEAN : Open(t, a)
          \/ \E u \in Tasks : Spawn(t, u)
          \/ Leave(t) \/ End(t) \/ Fail(t) \/ Cancel(t) \/ CtxCancel(t) \/ SetWill(t) \/ SetTurn(t)
          \/ Check(t)
Spec == Init /\ [][Next]_vars

-----------------------------------------------------------------------------
TypeOK == \A t \in Tasks : pc[t] \in {"unborn", "gate", "waiting", "done", "failed", "cancelled"}

(* C06: spawned tasks never outlive their scope: a live member's scope is still open by a live owner *)
NoOrphans == \A u \in Live(pc) : grp[u] # 0 =>
                /\ owner[grp[u]] \in Live(pc)
                /\ grp[u] \in AsyncOf(owner[grp[u]])
(* C06: leaving never waits for nothing (and so terminates as soon as the members have) *)
NoIdleWait == \A t \in Tasks : pc[t] = "waiting" => Members(pc, stack[t][Len(stack[t])].sid) # {}
(* C06: outside any scope a spawn yields a detached task, which nothing here ever cancels implicitly *)
DetachedUntouched ==
  [][\A u \in Tasks : (grp[u] = 0 /\ u \in Live(pc) /\ pc'[u] = "cancelled") =>
        \/ extc'[u]                                           \* it was asked to
        \/ \E c \in Live(pc) : pc'[c] = "failed" /\ grp[c] # 0 /\ owner[grp[c]] = u]_vars   \* or its own member failed
(* C06: a member is only ever cancelled together with (or by the failure inside) its scope *)
SpawnTarget == \A u \in Tasks : pc[u] # "unborn" /\ u # 1 => (grp[u] = 0 \/ owner[grp[u]] # 0)

(* C07: a task that was asked to cancel ends cancelled - the request is not swallowed *)
NotSwallowed == \A t \in Tasks : extc[t] => pc[t] = "cancelled"
(* C07: ... and so do the tasks spawned into the scopes it had open *)
CancelCascades ==
  [][\A t \in Tasks : (extc'[t] /\ ~extc[t]) =>
        \A u \in Doomed(pc, {t}) : pc'[u] = Dies(u)]_vars
(* C07: the cancellation check raises once asked to cancel and not otherwise *)
CheckAgrees == [][\A t \in Tasks :
                     /\ (obs'.check = "raised" /\ nops' = nops + 1) => (\E u \in Tasks : (extc'[u] /\ ~extc[u]) \/ residue[u])
                     /\ ((extc'[t] /\ ~extc[t] /\ pc[t] = "gate" /\ obs'.check # "none") => obs'.check = "raised")]_vars
(* C06: ... including tasks spawned by members while the scope is being torn down: a task never outlives the
   scope that was current where it was spawned *)
NoEscape == \A u \in Live(pc) : origin[u] # 0 =>
               /\ owner[origin[u]] \in Live(pc)
               /\ origin[u] \in AsyncOf(owner[origin[u]])
=============================================================================
