----------------------------- MODULE CacheFlight -----------------------------
(***************************************************************************)
(* haiway.helpers.caching.cache on an async function with concurrent       *)
(* callers (property C13).  The LRU table holds invocations (tasks), not   *)
(* values: a caller either attaches to the cached invocation for its key   *)
(* or starts a new one, then waits for it behind a shield.                  *)
(*                                                                         *)
(* Environment actions: Begin (a caller calls), Finish (an invocation of    *)
(* the wrapped function ends), CancelCaller, Advance (clock), Run (the      *)
(* event loop runs everything that is ready).  Finish and CancelCaller do   *)
(* not run the loop, so a caller can be cancelled between the end of the    *)
(* invocation and its own wake-up.                                          *)
(***************************************************************************)
EXTENDS Naturals, Sequences, FiniteSets, TLC

CONSTANTS NCallers, NKeys, Limits, Expirations, MaxT, MaxOps, Bug

LRU == INSTANCE CacheLRU
Callers == 1..NCallers
Keys == 1..NKeys

VARIABLES limit, expn, now,
          entries,    \* LRU table of [key, inv, exp]
          invs,       \* Seq of [key, st : running|val|exc|cancelled, canc : BOOLEAN (the function saw a cancellation)]
          cl,         \* [Callers -> [pc : idle|waiting|done, inv, out : none|val|exc|cancelled, got]]
          cpend,      \* callers with a cancellation request not yet delivered
          rdy,        \* callers whose wake-up is scheduled
          nops, obs

vars == <<limit, expn, now, entries, invs, cl, cpend, rdy, nops, obs>>
conf == <<limit, expn>>

Idle == [pc |-> "idle", key |-> 0, inv |-> 0, out |-> "none", got |-> 0]
Init == /\ limit \in Limits /\ expn \in Expirations /\ now = 0
        /\ entries = <<>> /\ invs = <<>>
        /\ cl = [c \in Callers |-> Idle] /\ cpend = {} /\ rdy = {} /\ nops = 0
        /\ obs = [cl |-> [c \in Callers |-> Idle], invs |-> <<>>]

Op == nops < MaxOps /\ nops' = nops + 1
Observe == obs' = [cl |-> cl', invs |-> invs']

(* caller c (idle, or done with an earlier call) calls with key k and runs up to its await *)
(* ... also in the GAP between the end of an invocation (or a waiter's cancellation) and the loop running the scheduled
   wake-ups: the newcomer is served by what is known at that very moment - a finished invocation's outcome at once *)
Begin(c, k) ==
  /\ Op /\ cl[c].pc # "waiting"
  /\ IF LRU!Hit(entries, k, now, Bug)
       THEN LET i == entries[LRU!Idx(entries, k)].inv IN
            /\ entries' = LRU!Touch(entries, k, Bug)
            /\ invs' = invs
            /\ cl' = [cl EXCEPT ![c] = IF invs[i].st = "running"
                                          THEN [pc |-> "waiting", key |-> k, inv |-> i, out |-> "none", got |-> 0]
                                          ELSE [pc |-> "done", key |-> k, inv |-> i, out |-> invs[i].st, got |-> i]]
       ELSE LET n == Len(invs) + 1 IN
            /\ invs' = Append(invs, [key |-> k, st |-> "running", canc |-> FALSE])
            /\ entries' = LRU!Stored(entries, k, n, now, expn, limit, Bug)
            /\ cl' = [cl EXCEPT ![c] = [pc |-> "waiting", key |-> k, inv |-> n, out |-> "none", got |-> 0]]
  /\ UNCHANGED <<conf, now, cpend, rdy>>
  /\ Observe

Attached(i) == {c \in Callers : cl[c].pc = "waiting" /\ cl[c].inv = i}

(* invocation i of the wrapped function ends with a value or an exception; its task is done,
   the waiters' wake-ups are scheduled but have not run *)
Finish(i, o) ==
  /\ Op /\ i \in DOMAIN invs /\ invs[i].st = "running"
  /\ invs' = [invs EXCEPT ![i].st = o]
  /\ rdy' = rdy \cup Attached(i)
  /\ UNCHANGED <<conf, now, entries, cl, cpend>>
  /\ Observe

(* the task of a waiting caller is cancelled (delivered when the loop next runs).  The
   invocation it waits for must not notice. *)
CancelCaller(c) ==
  /\ Op /\ cl[c].pc = "waiting" /\ c \notin cpend
  /\ cpend' = cpend \cup {c} /\ rdy' = rdy \cup {c}
  /\ IF Bug = "cancel_propagates" /\ invs[cl[c].inv].st = "running"
       THEN /\ invs' = [invs EXCEPT ![cl[c].inv].st = "cancelled", ![cl[c].inv].canc = TRUE]
       ELSE invs' = invs
  /\ UNCHANGED <<conf, now, entries, cl>>
  /\ Observe

(* the loop runs: every scheduled caller resumes - cancelled if it was asked to, else with the
   outcome of the invocation it is attached to *)
Run ==
  /\ rdy # {}
  /\ cl' = [c \in Callers |->
              IF c \notin rdy THEN cl[c]
              ELSE IF c \in cpend THEN [cl[c] EXCEPT !.pc = "done", !.out = "cancelled"]
              ELSE [cl[c] EXCEPT !.pc = "done", !.out = invs[cl[c].inv].st, !.got = cl[c].inv]]
  /\ rdy' = IF Bug = "cancel_propagates"
              THEN {c \in Callers : cl'[c].pc = "waiting" /\ invs[cl[c].inv].st # "running"} ELSE {}
  /\ cpend' = cpend \ rdy
  /\ UNCHANGED <<conf, now, entries, invs, nops>>
  /\ Observe

Advance == /\ Op /\ rdy = {} /\ now < MaxT /\ now' = now + 1
           /\ UNCHANGED <<conf, entries, invs, cl, cpend, rdy, obs>>

Next == \/ \E c \in Callers : (\E k \in Keys : Begin(c, k)) \/ CancelCaller(c)
        \/ \E i \in 1..MaxOps, o \in {"val", "exc"} : Finish(i, o)
        \/ Run \/ Advance
Spec == Init /\ [][Next]_vars /\ WF_vars(Run)

-----------------------------------------------------------------------------
TypeOK == /\ \A c \in Callers : cl[c].pc \in {"idle", "waiting", "done"}
          /\ rdy \subseteq Callers /\ cpend \subseteq Callers

(* C13: callers with the same key share a single invocation: while an invocation is cached and
   unexpired, a call with its key starts none (action property, stated on the table + clock) *)
SingleFlight ==
  [][\A c \in Callers :
       (cl[c].pc # "waiting" /\ cl'[c] # cl[c] /\ cl'[c].pc # "idle") =>     \* c has just called
          LET k == cl'[c].key
              i == LRU!Idx(entries, k) IN
          (i # 0 /\ (entries[i].exp = 0 \/ now <= entries[i].exp))
             => (Len(invs') = Len(invs) /\ cl'[c].inv = entries[i].inv)]_vars
OneEntryPerKey == \A i, j \in DOMAIN entries : entries[i].key = entries[j].key => i = j

(* C13: cancelling a caller never cancels the invocation *)
NeverCancelsInvocation == \A i \in DOMAIN invs : ~invs[i].canc /\ invs[i].st # "cancelled"

(* C13: every caller that was not itself cancelled receives exactly the outcome of the
   invocation it attached to - whatever happened to the entry or to other callers meanwhile *)
Delivers == \A c \in Callers : cl[c].pc = "done" =>
              \/ (cl[c].out = "cancelled" /\ cl[c].got = 0)
              \/ (cl[c].got = cl[c].inv /\ cl[c].out = invs[cl[c].inv].st /\ invs[cl[c].inv].key \in Keys)
OnlyTheCancelledSeeCancel ==
  [][\A c \in Callers : (cl'[c].out = "cancelled" /\ cl[c].out # "cancelled") => c \in cpend]_vars

(* the key a caller asked for is the key of the invocation it is attached to *)
RightKey == \A c \in Callers : cl[c].inv # 0 => invs[cl[c].inv].key = cl[c].key

(* C13: once the invocation has ended everyone waiting for it is eventually woken *)
EventuallyDelivered == \A c \in Callers : (cl[c].pc = "waiting" /\ c \in rdy) ~> (cl[c].pc = "done")
=============================================================================
