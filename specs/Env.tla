--------------------------------- MODULE Env ---------------------------------
(***************************************************************************)
(* haiway.utils.env and the constant helpers (always / noop) - beyond the  *)
(* twenty listed properties: the specification keeps growing to cover the  *)
(* library's behaviour.                                                     *)
(*                                                                         *)
(* load_env(path, override) reads `key=value` lines in order: lines that   *)
(* start with '#', lines without '=', and keys without a value are         *)
(* ignored; the value is stripped of surrounding whitespace and may itself *)
(* contain '='; an assignment takes effect when `override` is set or the   *)
(* key is not in the environment AT THAT MOMENT (so without override the   *)
(* first assignment of a key in the file wins, and an existing variable -  *)
(* even an empty one - is kept).  A missing file changes nothing.          *)
(*                                                                         *)
(* getenv_bool / _int / _float / _str read one variable: unset or empty    *)
(* gives the default (None when there is none); otherwise the text is      *)
(* parsed - bool: "true" / "1" / "t" in any case are True, anything else   *)
(* False; int / float: Python's parse, failing loudly on other text.       *)
(*                                                                         *)
(* always(v) / async_always(v) / noop / async_noop accept any arguments    *)
(* and return the very value (None for noop).                               *)
(***************************************************************************)
EXTENDS Naturals, Sequences, FiniteSets, TLC

CONSTANTS MaxLines, Bug

Keys == {"A", "B"}
(* texts by index: 0 = unset, 9 = the empty string *)
UNSET == 0  EMPTY == 9
Texts == 1..8      \* 1 "true"  2 "T"  3 "1"  4 "0"  5 "12"  6 "1.5"  7 "abc"  8 "v=w"
Truthy == {1, 2, 3}
IntOf(x) == CASE x = 3 -> 1 [] x = 4 -> 0 [] x = 5 -> 12 [] OTHER -> 99            \* 99: not an int literal
FloatOf(x) == CASE x = 3 -> 10 [] x = 4 -> 0 [] x = 5 -> 120 [] x = 6 -> 15 [] OTHER -> 990   \* tenths; 990: not a float

(* line kinds: "assign" K=text, "spaced" K= text (whitespace around the value), "comment" #K=text, "novalue" K=,
   "nokey" K (no '='), "blank" *)
LineKinds == {"assign", "spaced", "comment", "novalue", "nokey", "blank"}
Lines == [k : LineKinds, key : Keys, val : {3, 7, 8}]
Files == UNION {[1..n -> Lines] : n \in 0..MaxLines}

VARIABLES env,      \* [Keys -> 0..9]
          file, override, exists,   \* scenario: the file's lines, the flag, whether the file exists at all
          loaded, obs

vars == <<env, file, override, exists, loaded, obs>>

Init == /\ env \in [Keys -> {UNSET, EMPTY, 4}]
        /\ file \in Files /\ override \in BOOLEAN /\ exists \in BOOLEAN
        /\ (~exists => file = <<>>)
        /\ loaded = FALSE
        /\ obs = [k |-> "init", env |-> env, res |-> <<"none", 0>>]

Effective(l) == l.k \in {"assign", "spaced"}
RECURSIVE Fold(_, _, _)
Fold(e, ls, i) ==
  IF i > Len(ls) THEN e
  ELSE LET l == ls[i]
           takes == Effective(l) /\ (override \/ e[l.key] = UNSET
                                     \/ (Bug = "empty_counts_as_unset" /\ e[l.key] = EMPTY))
       IN Fold(IF takes THEN [e EXCEPT ![l.key] = l.val] ELSE e, ls, i + 1)

Load == /\ ~loaded /\ loaded' = TRUE
        /\ env' = IF exists THEN Fold(env, file, 1) ELSE env
        /\ obs' = [k |-> "load", env |-> env', res |-> <<"none", 0>>]
        /\ UNCHANGED <<file, override, exists>>

(* getenv_<kind>(key) / getenv_<kind>(key, default): res = <<"val", v>> | <<"default", 0>> | <<"none", 0>> | <<"error", 0>> *)
Get(kind, key, hasdef) ==
  /\ UNCHANGED <<env, file, override, exists, loaded>>
  /\ LET x == env[key]
         r == IF x \in {UNSET, EMPTY} THEN (IF hasdef THEN <<"default", 0>> ELSE <<"none", 0>>)
              ELSE CASE kind = "bool" -> <<"val", IF x \in Truthy THEN 1 ELSE 0>>
                     [] kind = "int" -> IF IntOf(x) = 99 THEN <<"error", 0>> ELSE <<"val", IntOf(x)>>
                     [] kind = "float" -> IF FloatOf(x) = 990 THEN <<"error", 0>> ELSE <<"val", FloatOf(x)>>
                     [] OTHER -> <<"val", x>>
     IN obs' = [k |-> "get", env |-> env, res |-> r]

(* always(v)(...) / async_always(v)(...) / noop(...) / async_noop(...) with arbitrary arguments *)
Const(kind) ==
  /\ UNCHANGED <<env, file, override, exists, loaded>>
  /\ obs' = [k |-> "const", env |-> env, res |-> <<IF kind \in {"always", "async_always"} THEN "same" ELSE "none", 0>>]

Next == Load \/ (\E kind \in {"bool", "int", "float", "str"}, key \in Keys, d \in BOOLEAN : Get(kind, key, d))
             \/ (\E kind \in {"always", "async_always", "noop", "async_noop"} : Const(kind))
Spec == Init /\ [][Next]_vars

-----------------------------------------------------------------------------
(* an existing variable survives a load without override - even an empty one *)
KeepsExisting == [][(~override /\ ~loaded /\ loaded') => \A key \in Keys : env[key] # UNSET => env'[key] = env[key]]_vars
(* whatever the file says, only keys it assigns change *)
OnlyAssigned == [][(~loaded /\ loaded') =>
                     \A key \in Keys : env'[key] # env[key] => \E i \in DOMAIN file : Effective(file[i]) /\ file[i].key = key /\ file[i].val = env'[key]]_vars
(* with override the LAST effective assignment of a key wins; without it (and the key unset) the FIRST *)
Winner == [][(~loaded /\ loaded' /\ exists) =>
               \A key \in Keys :
                 LET idx == {i \in DOMAIN file : Effective(file[i]) /\ file[i].key = key} IN
                 idx # {} /\ (override \/ env[key] = UNSET) =>
                   env'[key] = file[IF override THEN CHOOSE i \in idx : \A j \in idx : j <= i
                                    ELSE CHOOSE i \in idx : \A j \in idx : i <= j].val]_vars
=============================================================================
