-------------------------------- MODULE Heap --------------------------------
(***************************************************************************)
(* haiway State instances as immutable values (property C04).              *)
(*                                                                         *)
(* A heap of instances of a small class family; the environment constructs *)
(* instances (from external mutable containers it keeps), tries to assign  *)
(* or delete attributes, mutates the containers it passed in, derives      *)
(* updated copies (valid value, invalid value, unknown name), copies, deep *)
(* copies and compares.  The heap changes only by allocation; every        *)
(* observation lists the value of every live instance, so any change of an *)
(* existing instance is visible.                                           *)
(*                                                                         *)
(* Classes:  "flat"    a : int = 1 ; b : str                               *)
(*           "cont"    xs : Sequence[int] ; ss : Set[int] ; m : Mapping[str, int] *)
(*           "nest"    inner : Flat ; opt : int | None = None              *)
(*           "gen"     G[int]:  v : int   (a specialised generic)          *)
(*           "genw"    G[int | None]: a wider specialisation of the same    *)
(*                     generic - another class, never equal to a G[int]    *)
(*           "genraw"  G (unspecialised): v : Any                          *)
(*           "miss"    w : int | Missing = MISSING                         *)
(*           "deep"    rows : Sequence[Sequence[int]] ; idx : Mapping[str, Sequence[int]]    *)
(*                     built from a TUPLE of lists and a dict of lists (mutable below the top) *)
(*           "flag"    value : bool | int  - val 1 is the int 1, val 2 is  *)
(*                     True: two different values that compare equal       *)
(* Values are small integers; containers hold 1..n.                        *)
(***************************************************************************)
EXTENDS Naturals, Sequences, FiniteSets, TLC

CONSTANTS MaxObjs, MaxOps, Classes, Bug

Ids == 1..MaxObjs

VARIABLES heap,     \* Seq of [cls, val, ext]: val = attribute value summary (a natural), ext = size of the external containers
          nops, obs

vars == <<heap, nops, obs>>

(* value summary: for "flat"/"gen"/"genraw"/"nest"/"miss" the integer attribute (0 = MISSING / None);
   for "cont" the number n of elements the containers held AT CONSTRUCTION (1..n in each) *)
Obj(c, v, e) == [cls |-> c, val |-> v, ext |-> e]
Project(h) == [i \in DOMAIN h |-> <<h[i].cls, h[i].val>>]
O(res) == [res |-> res, objs |-> Project(heap')]

Init == heap = <<>> /\ nops = 0 /\ obs = [res |-> <<"init">>, objs |-> <<>>]
Op == nops < MaxOps /\ nops' = nops + 1

(* construct an instance of class c with value v (valid by construction) *)
Construct(c, v) ==
  /\ Op /\ Len(heap) < MaxObjs
  /\ (c = "miss" => v \in {0, 1}) /\ (c \notin {"miss", "cont"} => v \in {1, 2})      \* "cont" may be built from EMPTY containers (0)
  /\ heap' = Append(heap, Obj(c, v, IF c \in {"cont", "deep"} THEN v ELSE 0))
  /\ obs' = O(<<"new", Len(heap')>>)

(* assignment or deletion of an existing or a new attribute - or of a special one: __dict__, __class__, any __x__ - is
   rejected, nothing changes *)
Pokes == {"set_existing", "set_new", "del_existing", "del_new", "set_dunder", "del_dunder"}
Poke(i, how) ==
  /\ Op /\ i \in DOMAIN heap
  /\ heap' = IF Bug = "setattr_allowed" /\ how = "set_new" THEN [heap EXCEPT ![i].val = 9] ELSE heap
  /\ obs' = O(<<how, IF Bug = "setattr_allowed" /\ how = "set_new" THEN "accepted" ELSE "AttributeError">>)

(* the dictionary handed out by as_dict() is edited (a key overwritten, one deleted, one added): it is the caller's own *)
EditDict(i) ==
  /\ Op /\ i \in DOMAIN heap
  /\ heap' = heap
  /\ obs' = O(<<"dict_edited", i>>)

(* the list / set / dict originally passed to the constructor are mutated afterwards *)
MutateInput(i) ==
  /\ Op /\ i \in DOMAIN heap /\ heap[i].cls \in {"cont", "deep"} /\ heap[i].ext > 0   \* only instances built from external containers
  /\ heap' = [heap EXCEPT ![i].ext = @ + 1,
                          ![i].val = IF Bug = "shares_input" THEN @ + 1 ELSE @]
  /\ obs' = O(<<"mutated", i>>)

(* o.updated(...): "valid" replaces the value (re-validated), "invalid" raises and yields nothing,
   "unknown" names an attribute that does not exist: ignored, an equal copy results.
   "invalid_eq" is an invalid replacement that compares equal to the current value (1.0 for the int 1, a tuple of floats
   for a tuple of ints): re-validated and refused like any other; for "flag" the valid replacement compares equal to the
   current value (True for 1) and still has to replace it. *)
HasInvalidEq(o) == o.cls \in {"flat", "flat2", "gen", "genw", "deep"} \/ (o.cls \in {"miss", "cont"} /\ o.val # 0)   \* (an empty container has no such look-alike)
Updated(i, how) ==
  /\ Op /\ i \in DOMAIN heap
  /\ (how = "invalid_eq" => HasInvalidEq(heap[i]))
  /\ IF how \in {"invalid", "invalid_eq"}
       THEN /\ heap' = heap /\ obs' = O(<<"updated", "rejected">>)
       ELSE /\ Len(heap) < MaxObjs
            /\ LET nv == IF how # "valid" THEN heap[i].val
                         ELSE IF heap[i].cls = "miss" THEN (IF heap[i].val = 0 THEN 1 ELSE 0)   \* 0 = reset to MISSING
                         ELSE (IF heap[i].val = 1 THEN 2 ELSE 1) IN
               /\ heap' = IF Bug = "update_in_place" /\ how = "valid"
                            THEN Append([heap EXCEPT ![i].val = nv], Obj(heap[i].cls, nv, 0))
                            ELSE Append(heap, Obj(heap[i].cls, nv, 0))
               /\ obs' = O(<<"updated", Len(heap')>>)

(* copy.copy / copy.deepcopy: an equal instance (a new one or the same one) *)
Copy(i, deep) ==
  /\ Op /\ i \in DOMAIN heap /\ Len(heap) < MaxObjs
  /\ heap' = Append(heap, Obj(heap[i].cls, heap[i].val, 0))
  /\ obs' = O(<<IF deep THEN "deepcopy" ELSE "copy", "equal">>)

SameValue(a, b) == a.cls = b.cls /\ (a.val = b.val \/ a.cls = "flag")      \* 1 == True
(* o1 == o2 and o2 == o1, o1 != o2 and o2 != o1 *)
Compare(i, j) ==
  /\ Op /\ i \in DOMAIN heap /\ j \in DOMAIN heap
  /\ heap' = heap
  /\ LET e == IF Bug = "eq_ignores_class" THEN heap[i].val = heap[j].val ELSE SameValue(heap[i], heap[j]) IN
     obs' = O(<<"eq", e, e, ~e, ~e, i, j>>)

Next == \/ \E c \in Classes, v \in 0..2 : Construct(c, v)
        \/ \E i \in Ids : \/ \E how \in Pokes : Poke(i, how)
                          \/ MutateInput(i) \/ EditDict(i)
                          \/ \E how \in {"valid", "invalid", "invalid_eq", "unknown"} : Updated(i, how)
                          \/ \E deep \in BOOLEAN : Copy(i, deep)
                          \/ \E j \in Ids : Compare(i, j)
Spec == Init /\ [][Next]_vars

-----------------------------------------------------------------------------
TypeOK == Len(heap) <= MaxObjs

(* C04: a state instance never changes observable value *)
Frozen == [][\A i \in DOMAIN heap : heap'[i].cls = heap[i].cls /\ heap'[i].val = heap[i].val]_vars
(* C04: assigning or deleting attributes is rejected *)
PokeRejected == obs.res[1] \in Pokes => obs.res[2] = "AttributeError"
(* C04: an updated copy replaces exactly the named attributes and leaves the original untouched;
   copy and deep copy yield equal instances *)
DerivedRight ==
  [][(Len(heap') = Len(heap) + 1 /\ obs'.res[1] \in {"updated", "copy", "deepcopy"}) =>
        \E i \in DOMAIN heap :
           /\ heap'[Len(heap')].cls = heap[i].cls
           /\ (obs'.res[1] \in {"copy", "deepcopy"} => heap'[Len(heap')].val = heap[i].val)]_vars
(* C04: equality is an equivalence that holds exactly when classes and attribute values are the same *)
EqExact == obs.res[1] = "eq" => (obs.res[2] = obs.res[3] /\ obs.res[4] = ~obs.res[2] /\ obs.res[5] = ~obs.res[2])
EqTruth == obs.res[1] = "eq" => (obs.res[2] <=> SameValue(heap[obs.res[6]], heap[obs.res[7]]))
EqReflexive == \A i \in DOMAIN heap : SameValue(heap[i], heap[i])
EqTransitive == \A i, j, k \in DOMAIN heap :
                  (SameValue(heap[i], heap[j]) /\ SameValue(heap[j], heap[k])) => SameValue(heap[i], heap[k])
=============================================================================
