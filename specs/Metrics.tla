------------------------------- MODULE Metrics -------------------------------
(***************************************************************************)
(* haiway.context.metrics: the scope forest, its completion protocol and   *)
(* recorded metrics (properties C09 and C10).                               *)
(*                                                                         *)
(* A scope is created (and registered under the creating task's current    *)
(* scope, unless that scope has already completed) and entered at once;    *)
(* leaving it marks it finished and runs the upward completion closure;    *)
(* each completion schedules the scope's callback, which the event loop    *)
(* runs later (internal action RunCb).  Tasks are spawned into the current *)
(* async scope or as plain tasks that may outlive every scope they         *)
(* inherited.  Metrics are recorded into the recording task's current      *)
(* scope; values are sequences of record ids so that order is visible.     *)
(* A scope object may also be MADE in one place (registered under the      *)
(* maker's current scope there and then) and entered later, by any task:   *)
(* until it has been entered and left, the scope it is registered under    *)
(* cannot complete.  Scopes made this way carry no completion callback.    *)
(***************************************************************************)
EXTENDS Naturals, Sequences, FiniteSets, TLC

CONSTANTS NTasks, N, MaxOps, MaxRec, MaxT, MTypes,
          Kinds,   \* scope kinds the environment opens: subset of {"s", "a"} (sync / async)
          Prep,    \* BOOLEAN: scope objects made in one place and entered in another are explored
          Threads, \* BOOLEAN: attempts to open a scope off the event loop (OffLoop) are explored
          Bug
(* MTypes \subseteq {"Cat", "Last", "Sum", "Boom", "Same"}
   "Same": every record is the very same (shared, immutable) instance, folded by addition - the value counts the records
   "Mix": merge(a, b) = 2a + b - a merge function that is not associative: a scope's merged view is
          merge(... merge(merge(own, view of 1st nested), view of 2nd nested) ...), each nested view folded likewise first
   "CatSub": like "Cat", but the records are instances of a SUBCLASS and the merge function answers with an instance of
             the base class: the value belongs to the type that was recorded, whatever class the fold produces
             (its merged view is not observed: the library keys nested values by their class there) *)

Tasks == 1..NTasks
S == 1..N

VARIABLES par,      \* [S -> 0..N] registered parent (0 = none)
          kids,     \* [S -> Seq(S)] nested scopes in registration order
          phase,    \* [S -> "new" | "made" | "entered" | "finished"]
          mk,       \* the scopes that were made first and entered later (they have no completion callback)
          kind,     \* [S -> "s" | "a"] sync / async scope
          done,     \* [S -> BOOLEAN] completion future resolved
          born, doneAt,  \* [S -> Nat] creation time, measured time at completion
          cbq,      \* set of scopes whose callback is scheduled
          cblog,    \* [S -> Seq(callback observations)]
          vals,     \* [S -> [MTypes -> Seq(Nat)]] recorded values (<<>> = none)
          cur,      \* [Tasks -> 0..N] current metrics scope of each task
          tg,       \* [Tasks -> 0..N] current task group (async scope) of each task
          stack,    \* [Tasks -> Seq(S)] scopes entered by the task
          saved,    \* [S -> [cur, tg]] what to restore on exit
          grp,      \* [Tasks -> 0..N] group the task was spawned into
          alive,    \* [Tasks -> "unborn" | "run" | "done"]
          wait,     \* [Tasks -> 0..N] the async scope whose body the task has left and whose spawned tasks it awaits
          now, nrec, nops, drained, obs

vars == <<par, kids, phase, mk, kind, done, born, doneAt, cbq, cblog, vals, cur, tg, stack, saved, grp, alive, wait,
          now, nrec, nops, drained, obs>>

NoVals == [m \in MTypes |-> <<>>]
Range(q) == {q[i] : i \in DOMAIN q}

Init == /\ par = [s \in S |-> 0] /\ kids = [s \in S |-> <<>>]
        /\ phase = [s \in S |-> "new"] /\ kind = [s \in S |-> "s"] /\ mk = {}
        /\ done = [s \in S |-> FALSE] /\ born = [s \in S |-> 0] /\ doneAt = [s \in S |-> 0]
        /\ cbq = {} /\ cblog = [s \in S |-> <<>>]
        /\ vals = [s \in S |-> NoVals]
        /\ cur = [t \in Tasks |-> 0] /\ tg = [t \in Tasks |-> 0] /\ stack = [t \in Tasks |-> <<>>]
        /\ saved = [s \in S |-> [cur |-> 0, tg |-> 0]]
        /\ grp = [t \in Tasks |-> 0]
        /\ alive = [t \in Tasks |-> IF t = 1 THEN "run" ELSE "unborn"]
        /\ wait = [t \in Tasks |-> 0]
        /\ now = 0 /\ nrec = 0 /\ nops = 0 /\ drained = FALSE
        /\ obs = [a |-> "init", cb |-> [s \in S |-> <<>>], res |-> "ok"]

Members(s) == {u \in Tasks : grp[u] = s /\ alive[u] = "run"}
(* at rest: no callback scheduled and no waiting task whose group has emptied *)
Rest == cbq = {} /\ \A t \in Tasks : wait[t] # 0 => Members(wait[t]) # {}
Op == nops < MaxOps /\ nops' = nops + 1 /\ ~drained /\ Rest
Free(t) == alive[t] = "run" /\ wait[t] = 0

RECURSIVE IsCompletedK(_, _, _)
IsCompletedK(d, ks, s) == d[s] /\ \A k \in Range(ks[s]) : IsCompletedK(d, ks, k)
IsCompleted(s) == IsCompletedK(done, kids, s)

(* merged view of a scope: own values, then nested scopes depth-first in registration order *)
RECURSIVE ViewOf(_, _, _, _)
MergeVal(m, lhs, rhs) ==
  IF rhs = <<>> THEN lhs ELSE IF lhs = <<>> THEN rhs
  ELSE CASE m \in {"Cat", "CatSub"} -> lhs \o rhs
         [] m \in {"Sum", "Same"} -> <<lhs[1] + rhs[1]>>
         [] m = "Mix" -> <<2 * lhs[1] + rhs[1]>>         \* NOT associative: the grouping of the fold shows
         [] OTHER -> rhs
RECURSIVE FoldKids(_, _, _, _, _)
FoldKids(vs, ks, m, q, acc) ==
  IF q = <<>> THEN acc ELSE FoldKids(vs, ks, m, Tail(q), MergeVal(m, acc, ViewOf(vs, ks, m, Head(q))))
ViewOf(vs, ks, m, s) == FoldKids(vs, ks, m, ks[s], vs[s][m])

SeenView(m, s) == IF m = "CatSub" THEN <<>> ELSE ViewOf(vals, kids, m, s)

(* the scopes that complete when s is examined after it finished / after a nested one completed *)
RECURSIVE Closure(_, _, _)
Closure(d, fin, s) ==
  IF s = 0 \/ d[s] \/ ~fin[s] \/ (\E k \in Range(kids[s]) : ~IsCompletedK(d, kids, k))
    THEN <<>>
    ELSE <<s>> \o Closure([d EXCEPT ![s] = TRUE], fin, par[s])

NextScope == CHOOSE s \in S : phase[s] = "new" /\ \A r \in S : phase[r] = "new" => s <= r

(* ctx.scope(...) created and entered by task t; k = sync / async scope *)
Open(t, k) ==
  /\ Op /\ Free(t) /\ \E s \in S : phase[s] = "new"
  /\ LET s == NextScope
         p == cur[t]
         reg == IF p # 0 /\ (Bug = "late_child" \/ ~done[p]) THEN p ELSE 0
     IN /\ par' = [par EXCEPT ![s] = reg]
        /\ kids' = IF reg # 0 THEN [kids EXCEPT ![reg] = Append(@, s)] ELSE kids
        /\ phase' = [phase EXCEPT ![s] = "entered"]
        /\ kind' = [kind EXCEPT ![s] = k]
        /\ born' = [born EXCEPT ![s] = now]
        /\ saved' = [saved EXCEPT ![s] = [cur |-> cur[t], tg |-> tg[t]]]
        /\ cur' = [cur EXCEPT ![t] = s]
        /\ tg' = [tg EXCEPT ![t] = IF k = "a" THEN s ELSE @]
        /\ stack' = [stack EXCEPT ![t] = Append(@, s)]
  /\ UNCHANGED <<mk, done, doneAt, cbq, cblog, vals, grp, alive, wait, now, nrec, drained>>
  /\ obs' = [a |-> "open", cb |-> cblog, res |-> "ok"]

(* ctx.scope(...) evaluated by task t and kept: the scope is registered under t's current scope now, entered later *)
Make(t, k) ==
  /\ Prep /\ Op /\ Free(t) /\ (\E s \in S : phase[s] = "new") /\ (\A s \in S : phase[s] # "made")
  /\ LET s == NextScope
         p == cur[t]
         reg == IF p # 0 /\ ~done[p] THEN p ELSE 0
     IN /\ par' = [par EXCEPT ![s] = reg]
        /\ kids' = IF reg # 0 THEN [kids EXCEPT ![reg] = Append(@, s)] ELSE kids
        /\ phase' = [phase EXCEPT ![s] = "made"]
        /\ mk' = mk \cup {s}
        /\ kind' = [kind EXCEPT ![s] = k]
        /\ born' = [born EXCEPT ![s] = now]
  /\ UNCHANGED <<saved, cur, tg, stack, done, doneAt, cbq, cblog, vals, grp, alive, wait, now, nrec, drained>>
  /\ obs' = [a |-> "make", cb |-> cblog, res |-> "ok"]

(* ... and entered, by whichever task *)
EnterMade(t) ==
  /\ Op /\ Free(t) /\ \E s \in S : phase[s] = "made"
  /\ LET s == CHOOSE s \in S : phase[s] = "made" IN
     /\ phase' = [phase EXCEPT ![s] = "entered"]
     /\ saved' = [saved EXCEPT ![s] = [cur |-> cur[t], tg |-> tg[t]]]
     /\ cur' = [cur EXCEPT ![t] = s]
     /\ tg' = [tg EXCEPT ![t] = IF kind[s] = "a" THEN s ELSE @]
     /\ stack' = [stack EXCEPT ![t] = Append(@, s)]
  /\ UNCHANGED <<par, kids, mk, kind, born, done, doneAt, cbq, cblog, vals, grp, alive, wait, now, nrec, drained>>
  /\ obs' = [a |-> "enter", cb |-> cblog, res |-> "ok"]

(* the scope's metrics are exited: it is marked finished and the upward completion closure runs *)
MetricsExit(s, a) ==
  LET fin == [x \in S |-> phase[x] = "finished" \/ x = s]
      cl == Closure(done, fin, s)
  IN /\ phase' = [phase EXCEPT ![s] = "finished"]
     /\ done' = [x \in S |-> done[x] \/ x \in Range(cl)]
     /\ doneAt' = [x \in S |-> IF x \in Range(cl) THEN now - born[x] ELSE doneAt[x]]
     /\ cbq' = cbq \cup ((IF Bug = "no_parent_notify" THEN (IF cl = <<>> THEN {} ELSE {cl[1]}) ELSE Range(cl)) \ mk)
     /\ obs' = [a |-> a, cb |-> cblog,
                res |-> IF Bug = "late_child" /\ cl # <<>> /\ par[cl[Len(cl)]] # 0 /\ done[par[cl[Len(cl)]]]
                          THEN "AssertionError" ELSE "ok"]
(* ... and the task's context is restored *)
Restore(t, s) ==
  /\ cur' = [cur EXCEPT ![t] = saved[s].cur] /\ tg' = [tg EXCEPT ![t] = saved[s].tg]
  /\ stack' = [stack EXCEPT ![t] = SubSeq(@, 1, Len(@) - 1)]

(* task t leaves the body of its innermost scope.  An async scope first awaits the tasks spawned into it: while any is
   running the task waits (Finish, below, completes the exit); the scope is not finished - and cannot complete -
   before that *)
Close(t) ==
  /\ Op /\ Free(t) /\ stack[t] # <<>>
  /\ LET s == stack[t][Len(stack[t])] IN
     IF kind[s] = "a" /\ Members(s) # {}
       THEN /\ wait' = [wait EXCEPT ![t] = s]
            /\ IF Bug = "metrics_before_group"
                 THEN MetricsExit(s, "close")
                 ELSE /\ obs' = [a |-> "close", cb |-> cblog, res |-> "ok"]
                      /\ UNCHANGED <<phase, done, doneAt, cbq>>
            /\ UNCHANGED <<cur, tg, stack>>
       ELSE /\ MetricsExit(s, "close") /\ Restore(t, s) /\ wait' = wait
  /\ UNCHANGED <<par, kids, mk, kind, born, cblog, vals, saved, grp, alive, now, nrec, drained>>

(* internal: the last task spawned into the awaited scope has ended - the waiting task completes the exit *)
Finish(t) ==
  /\ wait[t] # 0 /\ Members(wait[t]) = {}
  /\ LET s == wait[t] IN
     /\ IF phase[s] = "finished" THEN UNCHANGED <<phase, done, doneAt, cbq, obs>> ELSE MetricsExit(s, obs.a)
     /\ Restore(t, s)
  /\ wait' = [wait EXCEPT ![t] = 0]
  /\ UNCHANGED <<par, kids, mk, kind, born, cblog, vals, saved, grp, alive, now, nrec, nops, drained>>

(* internal: the event loop runs one scheduled completion callback; it observes the scope *)
RunCb(s) ==
  /\ s \in cbq /\ cbq' = cbq \ {s}
  /\ cblog' = [cblog EXCEPT ![s] = Append(@, [at |-> now, completed |-> IsCompleted(s), time |-> doneAt[s],
                                               own |-> vals[s], view |-> [m \in MTypes |-> SeenView(m, s)]])]
  /\ obs' = [obs EXCEPT !.cb = cblog']
  /\ UNCHANGED <<par, kids, phase, mk, kind, done, born, doneAt, vals, cur, tg, stack, saved, grp, alive, wait, now, nrec, nops, drained>>

(* code of task t running OFF the event loop (a worker thread, with a copy of t's context - what `asynchronous` does)
   tries to open a scope there: whether that is refused (no event loop in that thread) or works, t's scopes are what
   they were and complete as they would have *)
OffLoop(t) ==
  /\ Threads /\ Op /\ Free(t)
  /\ UNCHANGED <<par, kids, phase, mk, kind, done, born, doneAt, cbq, cblog, vals, cur, tg, stack, saved, grp, alive, wait, now, nrec, drained>>
  /\ obs' = [a |-> "offloop", cb |-> cblog, res |-> "ok"]

Start(t, u, how) ==
  /\ Op /\ Free(t) /\ alive[u] = "unborn" /\ \A w \in Tasks : w < u => alive[w] # "unborn"
  \* spawning needs a current group that is still open (a plain task that outlived the async scope it inherited would
  \* hit a finished TaskGroup and get RuntimeError - observed, judged by none of the properties, outside this model)
  /\ (how = "spawn" => (tg[t] # 0 /\ phase[tg[t]] = "entered"))
  /\ alive' = [alive EXCEPT ![u] = "run"]
  /\ cur' = [cur EXCEPT ![u] = cur[t]] /\ tg' = [tg EXCEPT ![u] = tg[t]]
  /\ grp' = [grp EXCEPT ![u] = IF how = "spawn" THEN tg[t] ELSE 0]
  /\ UNCHANGED <<par, kids, phase, mk, kind, done, born, doneAt, cbq, cblog, vals, stack, saved, wait, now, nrec, drained>>
  /\ obs' = [a |-> "start", cb |-> cblog, res |-> "ok"]

End(t) ==
  /\ Op /\ Free(t) /\ stack[t] = <<>> /\ t # 1
  /\ alive' = [alive EXCEPT ![t] = "done"]
  /\ UNCHANGED <<par, kids, phase, mk, kind, done, born, doneAt, cbq, cblog, vals, cur, tg, stack, saved, grp, wait, now, nrec, drained>>
  /\ obs' = [a |-> "end", cb |-> cblog, res |-> "ok"]

Tick == /\ Op /\ now < MaxT /\ now' = now + 1
        /\ UNCHANGED <<par, kids, phase, mk, kind, done, born, doneAt, cbq, cblog, vals, cur, tg, stack, saved, grp, alive, wait, nrec, drained>>
        /\ obs' = [a |-> "tick", cb |-> cblog, res |-> "ok"]

(* ctx.record(metric of type m) by task t: lands in cur[t] only; never raises *)
Record(t, m) ==
  /\ Op /\ Free(t) /\ nrec < MaxRec /\ nrec' = nrec + 1
  /\ LET s == IF Bug = "record_parent" /\ cur[t] # 0 /\ par[cur[t]] # 0 THEN par[cur[t]] ELSE cur[t]
         x == nrec + 1 IN
     IF s = 0 \/ done[s]          \* outside any scope / completed scope: dropped, reported through the log only
       THEN vals' = vals
       ELSE LET old == vals[s][m] IN
            vals' = [vals EXCEPT ![s][m] =
                       IF old = <<>> THEN (IF m = "Same" THEN <<1>> ELSE <<x>>)
                       ELSE CASE m = "Same" -> <<old[1] + 1>>
                              [] m \in {"Cat", "CatSub"} -> IF Bug = "merge_swapped" THEN <<x>> \o old ELSE old \o <<x>>
                              [] m = "Sum" -> <<old[1] + x>>
                              [] m = "Mix" -> <<2 * old[1] + x>>
                              [] m = "Boom" -> old            \* merge function raises: record dropped
                              [] OTHER -> <<x>>]
  /\ UNCHANGED <<par, kids, phase, mk, kind, done, born, doneAt, cbq, cblog, cur, tg, stack, saved, grp, alive, wait, now, drained>>
  /\ obs' = [a |-> "record", cb |-> cblog, res |-> "ok"]

(* epilogue from every state: every task unwinds (innermost scopes first), the loop runs, and every
   scope's metrics object handed to a callback is read once more *)
RECURSIVE Unwind(_, _, _)
Unwind(d, fin, q) ==     \* q: sequence of scopes being left in order; returns [d, cbs]
  IF q = <<>> THEN [d |-> d, cbs |-> {}]
  ELSE LET s == Head(q)
           fin2 == [fin EXCEPT ![s] = TRUE]
           cl == Closure(d, fin2, s)
           d2 == [x \in S |-> d[x] \/ x \in Range(cl)]
           rest == Unwind(d2, fin2, Tail(q))
       IN [d |-> rest.d, cbs |-> Range(cl) \cup rest.cbs]

(* order in which open scopes are left at the end: higher task ids first (children before parents),
   within a task innermost first *)
RECURSIVE LeaveOrder(_)
Rev(q) == [i \in 1..Len(q) |-> q[Len(q) + 1 - i]]
LeaveOrder(t) == IF t = 0 THEN <<>> ELSE Rev(stack[t]) \o LeaveOrder(t - 1)

Drain ==
  /\ ~drained /\ Rest /\ drained' = TRUE
  /\ LET fin == [x \in S |-> phase[x] = "finished"]
         u == Unwind(done, fin, LeaveOrder(NTasks))
         called == {s \in S : cblog[s] # <<>>} \cup (u.cbs \ mk)
     IN obs' = [a |-> "drain",
                cb |-> [s \in S |-> IF s \in called
                                      THEN <<[ncalls |-> Len(cblog[s]) + (IF s \in u.cbs THEN 1 ELSE 0),
                                              completed |-> IsCompletedK(u.d, kids, s),
                                              time |-> IF done[s] THEN doneAt[s] ELSE now - born[s],
                                              own |-> vals[s],
                                              view |-> [m \in MTypes |-> SeenView(m, s)]]>>
                                      ELSE <<>>],
                res |-> IF \A s \in S : phase[s] = "new" \/ s \in mk \/ u.d[s] THEN "ok" ELSE "incomplete"]
  /\ UNCHANGED <<par, kids, phase, mk, kind, done, born, doneAt, cbq, cblog, vals, cur, tg, stack, saved, grp, alive, wait,
                 now, nrec, nops>>

Controlled == \/ \E t \in Tasks : (\E k \in Kinds : Open(t, k) \/ Make(t, k)) \/ EnterMade(t) \/ OffLoop(t) \/ Close(t) \/ End(t)
                                  \/ (\E u \in Tasks, how \in {"spawn", "plain"} : Start(t, u, how))
                                  \/ (\E m \in MTypes : Record(t, m))
              \/ Tick \/ Drain
Internal == (\E s \in S : RunCb(s)) \/ (\E t \in Tasks : Finish(t))
Next == Internal \/ Controlled
Spec == Init /\ [][Next]_vars /\ WF_vars(Internal)

-----------------------------------------------------------------------------
RECURSIVE Desc(_)
Desc(s) == Range(kids[s]) \cup UNION {Desc(k) : k \in Range(kids[s])}

TypeOK == /\ \A s \in S : phase[s] \in {"new", "made", "entered", "finished"}
          /\ cbq \subseteq S

(* C09: the completion callback is invoked exactly once ... *)
CbAtMostOnce == \A s \in S : Len(cblog[s]) <= 1
(* ... only after the scope and every scope nested under it have been left *)
CbAfterSubtree == \A s \in S : done[s] => (phase[s] = "finished" /\ \A k \in Desc(s) : phase[k] = "finished" /\ done[k])
(* ... including every task spawned into it (those tasks may still open scopes under it) *)
CbAfterMembers == \A s \in S : done[s] => Members(s) = {}
CbSeesCompleted == \A s \in S : \A i \in DOMAIN cblog[s] : cblog[s][i].completed
(* C09: leaving a scope never fails because of completion bookkeeping *)
ExitNeverFails == obs.res # "AssertionError"
(* C09: from then on the metrics report completed and the measured time no longer changes *)
CompletedStable == [][\A s \in S : IsCompletedK(done, kids, s) => (IsCompletedK(done', kids', s) /\ doneAt'[s] = doneAt[s])]_vars
(* C09: and always eventually once they have *)
SubtreeLeft(s) == phase[s] = "finished" /\ \A k \in Desc(s) : phase[k] = "finished"
EventuallyCalled == \A s \in S : (SubtreeLeft(s) /\ s \notin mk) ~> (Len(cblog[s]) = 1)
CompletionIffSubtreeLeft == \A s \in S : (SubtreeLeft(s) /\ Rest) => (done[s] /\ (s \notin mk => Len(cblog[s]) = 1))

(* C10: a record changes the value of exactly one scope - the recording task's innermost one *)
Attribution == [][nrec' = nrec + 1 =>
                    \A s \in S : vals'[s] # vals[s] => (\E t \in Tasks : cur[t] = s /\ alive[t] = "run")]_vars
(* C10: a scope's value is the left fold of its records in recording order: ids strictly increase *)
FoldOrder == \A m \in MTypes \cap {"Cat", "CatSub"} :
               \A s \in S : \A i, j \in DOMAIN vals[s][m] : i < j => vals[s][m][i] < vals[s][m][j]
=============================================================================
