----------------------------- MODULE QueueTrace -----------------------------
(***************************************************************************)
(* Leg T for C17: validates executions recorded from the real AsyncQueue   *)
(* against Queue.  TRACE_FILE holds a JSON array of traces; each trace is  *)
(* an array of events {ev, n | r, res, fin}; the first event is            *)
(* {ev: "Init", n: <initial elements>}.  Verdicts are total: a step whose  *)
(* logged observation differs from the specification's is taken and the    *)
(* difference latched in `mism`, so each rejection names what differed.    *)
(***************************************************************************)
EXTENDS Naturals, Sequences, FiniteSets, TLC, TLCExt, Json, IOUtils

Traces == JsonDeserialize(IOEnv.TRACE_FILE)

VARIABLES buf, waiter, reason, cons, enq, got, creq, nops, obs, tid, l, mism

Q == INSTANCE Queue WITH MaxEnq <- 100000, MaxOps <- 100000, MaxInit <- 0, Bug <- "none"

tvars == <<buf, waiter, reason, cons, enq, got, creq, nops, obs, tid, l, mism>>

Ev == Traces[tid][l]
NoMism == [at |-> 0, exp |-> <<>>, fin |-> FALSE]

TraceInit ==
  /\ tid \in 1..Len(Traces)
  /\ l = 2 /\ mism = NoMism
  /\ LET n == Traces[tid][1].n IN buf = [i \in 1..n |-> i] /\ enq = [i \in 1..n |-> i]
  /\ waiter = Q!W("none", 0) /\ reason = "none" /\ cons = "idle" /\ got = <<>> /\ nops = 0 /\ creq = FALSE
  /\ obs = [a |-> <<"init">>, fin |-> FALSE]
  /\ TLCSet(tid, <<2, NoMism>>)

Pre(name) == mism = NoMism /\ l <= Len(Traces[tid]) /\ Ev.ev = name
Post == /\ l' = l + 1 /\ tid' = tid
        /\ mism' = IF obs'.a = Ev.res /\ obs'.fin = Ev.fin THEN NoMism
                   ELSE [at |-> l, exp |-> obs'.a, fin |-> obs'.fin]

TEnqueue == Pre("Enqueue") /\ Q!Enqueue(Ev.n) /\ Post
TFinish == Pre("Finish") /\ Q!Finish(Ev.r) /\ Post
TStart == Pre("StartReceive") /\ Q!StartReceive /\ Post
TCancelReq == Pre("CancelRequest") /\ Q!CancelRequest /\ Post
TWake == Pre("Wake") /\ Q!Wake /\ Post
TDrain == Pre("Drain") /\ Q!Drain /\ Post

TraceNext == TEnqueue \/ TFinish \/ TStart \/ TCancelReq \/ TWake \/ TDrain

TraceSpec == TraceInit /\ [][TraceNext]_tvars

\* progress register per trace: furthest position reached and the latched mismatch
Track == TLCSet(tid, IF TLCGet(tid)[1] < l \/ mism # NoMism THEN <<l, mism>> ELSE TLCGet(tid))

Verdict(i) ==
  LET r == TLCGet(i) IN
  IF r[2] # NoMism THEN PrintT(<<"MISMATCH", i, r[2].at, r[2].exp, r[2].fin>>)
  ELSE IF r[1] = Len(Traces[i]) + 1 THEN PrintT(<<"ACCEPT", i>>)
  ELSE PrintT(<<"STUCK", i, r[1]>>)

Report == /\ \A i \in 1..Len(Traces) : Verdict(i)
          /\ PrintT(<<"DONE", Len(Traces)>>)

\* every invariant of the design is evaluated in every state of every observed execution
NoLoss == mism = NoMism => Q!NoLoss
DrainedAll == mism = NoMism => Q!DrainedAll
AfterFinish == mism = NoMism => Q!AfterFinish
=============================================================================
