------------------------------- MODULE Streams -------------------------------
(***************************************************************************)
(* haiway ctx.stream (property C11): a generator wrapped into a stream     *)
(* that is created in one context (scope S1, state A = 1) and consumed in  *)
(* the same scope, in another scope (A = 2), outside any scope, or item by *)
(* item from other tasks; fully, or abandoned / closed early.              *)
(*                                                                         *)
(* The intended design: the generator body always runs in the creation     *)
(* context (plus its own nested scopes), the consumer's context is never   *)
(* touched, the stream's own scope completes when the stream is exhausted  *)
(* or closed.  The pinned implementation only CREATES the generator in the *)
(* snapshot; its body runs in whatever context calls __anext__.  That is a *)
(* genuine defect recorded as known findings: the actions whose name ends  *)
(* in _KF_C11 describe it as a bounded havoc on exactly the affected       *)
(* observation fields (enabled only when Dev = TRUE, i.e. in conformance   *)
(* configurations); every other field stays strictly checked.              *)
(***************************************************************************)
EXTENDS Naturals, Sequences, FiniteSets, TLC

CONSTANTS MaxItems, Dev, Bug

Places == {"same", "other_scope", "outside", "other_task"}
STREAM == 50          \* id standing for the stream's own scope / task group
NOCTX == 93  DEFAULT == 91

VARIABLES place, n, ending, nested,   \* scenario, chosen in Init
          pos,        \* items produced so far
          sst,        \* "fresh" | "open" | "ended" | "closed"
          s1done,     \* the creator scope's completion callback ran (it waits for the stream's scope)
          dev,        \* ghost: some deviation action was taken
          nops, obs

vars == <<place, n, ending, nested, pos, sst, s1done, dev, nops, obs>>
scen == <<place, n, ending, nested>>

(* what the consumer sees of its own context: <<state A, metrics scope, task group>> *)
Own == CASE place = "same" -> <<1, 1, 1>>
         [] place = "other_scope" -> <<2, 2, 2>>
         [] OTHER -> <<NOCTX, 0, 0>>

Init == /\ place \in Places /\ n \in 1..MaxItems /\ ending \in {"normal", "error"} /\ nested \in BOOLEAN
        /\ (nested => n >= 2)
        /\ pos = 0 /\ sst = "fresh" /\ s1done = FALSE /\ dev = FALSE /\ nops = 0
        /\ obs = [res |-> <<"none", 0, 0, 0>>, cons |-> Own, s1 |-> FALSE]

InNested(i) == nested /\ i = 1          \* the generator yields its 2nd item from inside a nested scope (A = 3)
ItemOf(i) == <<"item", i, IF InNested(i) THEN 3 ELSE 1, IF InNested(i) THEN 3 ELSE STREAM>>
Completes == place # "same"              \* S1 was left before consumption started, except in "same"

(* ---------------- intended design ---------------- *)
Bound == nops < MaxItems + 3

Pull ==
  /\ Bound /\ nops' = nops + 1 /\ UNCHANGED <<scen, dev>>
  /\ IF sst \in {"fresh", "open"} /\ pos < n
       THEN /\ pos' = pos + 1 /\ sst' = "open" /\ s1done' = s1done
            /\ obs' = [res |-> IF Bug = "reorder" /\ n = 2 THEN ItemOf(1 - pos) ELSE ItemOf(pos), cons |-> Own, s1 |-> s1done]
       ELSE IF sst \in {"fresh", "open"}
         THEN /\ sst' = "ended" /\ pos' = pos
              /\ s1done' = IF Bug = "never_completes" THEN s1done ELSE Completes
              /\ obs' = [res |-> IF ending = "error" /\ Bug # "swallow_error" THEN <<"err", 0, 0, 0>> ELSE <<"stop", 0, 0, 0>>,
                         cons |-> Own, s1 |-> s1done']
         ELSE /\ UNCHANGED <<pos, sst, s1done>>      \* exhausted or closed: plain end of iteration
              /\ obs' = [res |-> <<"stop", 0, 0, 0>>, cons |-> Own, s1 |-> s1done]

Close ==
  /\ Bound /\ sst \in {"fresh", "open"} /\ sst' = "closed"
  /\ nops' = nops + 1 /\ UNCHANGED <<scen, pos, dev>>
  /\ s1done' = Completes
  /\ obs' = [res |-> <<"closed", 0, 0, 0>>, cons |-> Own, s1 |-> s1done']

(* the consumer just stops iterating (break) and looks at its own context again *)
Abandon ==
  /\ Bound /\ sst = "open" /\ nops' = nops + 1
  /\ UNCHANGED <<scen, pos, sst, s1done, dev>>
  /\ obs' = [res |-> <<"abandoned", 0, 0, 0>>, cons |-> Own, s1 |-> s1done]

(* ---------------- known findings (pinned implementation), bounded havoc ---------------- *)
ConsLeak == {Own} \cup {<<a, m, g>> : a \in {1, 2, 3, DEFAULT}, m \in {STREAM, 3}, g \in {STREAM}}
GenSees == {1, 2, 3, DEFAULT, NOCTX}
Pull_KF_C11 ==
  /\ Bound /\ Dev /\ dev' = TRUE
  /\ nops' = nops + 1 /\ UNCHANGED scen
  /\ IF sst \in {"fresh", "open"} /\ pos < n
       THEN \/ \* consumed across tasks, the generator is resumed inside its nested scope by a task other than the one
               \* that entered it: leaving that scope fails (context token of another Context), the stream dies
               (/\ place = "other_task" /\ nested /\ pos = 2
                /\ pos' = pos /\ sst' = "ended" /\ s1done' = FALSE
                /\ obs' = [res |-> <<"exc", 0, 0, 0>>, cons |-> Own, s1 |-> FALSE])
            \/ (/\ pos' = pos + 1 /\ sst' = "open" /\ s1done' = s1done
                /\ \E a \in GenSees, c \in (IF place = "other_task" THEN {Own} ELSE ConsLeak),
                      m \in (IF place = "other_task" /\ ~InNested(pos) THEN {ItemOf(pos)[4], 0} ELSE {ItemOf(pos)[4]}) :
                      obs' = [res |-> <<"item", pos, IF InNested(pos) THEN 3 ELSE a, m>>, cons |-> c, s1 |-> s1done])
       ELSE IF sst \in {"fresh", "open"}
         THEN /\ sst' = "ended" /\ pos' = pos
              /\ IF place = "other_task"
                   THEN \* leaving the stream's scope from another task fails; its scope never completes
                        /\ s1done' = FALSE
                        /\ obs' = [res |-> <<"exc", 0, 0, 0>>, cons |-> Own, s1 |-> FALSE]
                   ELSE /\ s1done' = Completes
                        /\ obs' = [res |-> IF ending = "error" THEN <<"err", 0, 0, 0>> ELSE <<"stop", 0, 0, 0>>,
                                   cons |-> Own, s1 |-> s1done']
         ELSE /\ UNCHANGED <<pos, sst, s1done>>
              /\ obs' = [res |-> <<"stop", 0, 0, 0>>, cons |-> Own, s1 |-> s1done]

Close_KF_C11 ==
  /\ Bound /\ Dev /\ dev' = TRUE
  /\ sst \in {"fresh", "open"} /\ sst' = "closed"
  /\ nops' = nops + 1 /\ UNCHANGED <<scen, pos>>
  /\ \/ /\ sst = "fresh"            \* closed before the first item: the pre-built scope is never entered nor completed
        /\ s1done' = FALSE /\ obs' = [res |-> <<"closed", 0, 0, 0>>, cons |-> Own, s1 |-> FALSE]
     \/ /\ sst = "open" /\ place = "other_task"
        /\ s1done' = FALSE /\ obs' = [res |-> <<"exc", 0, 0, 0>>, cons |-> Own, s1 |-> FALSE]

Abandon_KF_C11 ==
  /\ Bound /\ Dev /\ dev' = TRUE
  /\ sst = "open" /\ nops' = nops + 1 /\ place # "other_task"
  /\ UNCHANGED <<scen, pos, sst, s1done>>
  /\ \E c \in ConsLeak : obs' = [res |-> <<"abandoned", 0, 0, 0>>, cons |-> c, s1 |-> s1done]

Next == Pull \/ Close \/ Abandon \/ Pull_KF_C11 \/ Close_KF_C11 \/ Abandon_KF_C11
Spec == Init /\ [][Next]_vars

-----------------------------------------------------------------------------
(* the properties are stated for the intended design: deviation steps are excluded (dev = FALSE) *)
TypeOK == sst \in {"fresh", "open", "ended", "closed"} /\ pos \in 0..MaxItems

(* C11: exactly the generator's items, in order, then its normal end or its exception *)
ItemsInOrder == ~dev => /\ (obs.res[1] = "item" => obs.res[2] = pos - 1)
                        /\ (obs.res[1] = "err" => ending = "error" /\ pos = n)
                        /\ (obs.res[1] = "stop" /\ sst = "ended" => pos = n)
EndsWithError == ~dev /\ sst = "ended" /\ ending = "error" /\ obs.res[1] \in {"err", "stop"} /\ nops = n + 1 => obs.res[1] = "err"
(* C11: the generator body observes the state current where the stream was created *)
GenSeesCreation == ~dev /\ obs.res[1] = "item" => obs.res[3] = (IF InNested(obs.res[2]) THEN 3 ELSE 1)
(* C11: the consumer's own state, metrics scope and task group are unaffected *)
ConsumerIntact == ~dev => obs.cons = Own
(* C11: the stream's scope completes when the stream is exhausted or closed *)
StreamScopeCompletes == ~dev /\ sst \in {"ended", "closed"} /\ Completes => s1done
=============================================================================
