------------------------------- MODULE Streams -------------------------------
(***************************************************************************)
(* haiway ctx.stream (property C11): a generator wrapped into a stream     *)
(* that is created in one context (scope S1, state A = 1) and consumed in  *)
(* the same scope, in another scope (A = 2), outside any scope, or item by *)
(* item from other tasks; fully, or abandoned / closed early; the generator *)
(* may suspend before one of its items, and the pulling task may be        *)
(* cancelled while it waits there.                                         *)
(*                                                                         *)
(* The generator body always runs in the creation context (plus its own    *)
(* nested scopes), whichever task pulls; the consumer's context is never   *)
(* touched; the stream's own scope - registered under the creator scope    *)
(* when the stream is made - completes when the stream is exhausted or     *)
(* closed, also when it is closed before its first item.                   *)
(* (The pinned implementation only CREATED the generator in the snapshot   *)
(* and ran its body in whatever context called __anext__; until the repair *)
(* this module described that by deviation actions *_KF_C11 - see git      *)
(* history and DESIGN.md 3.4 / 6.1.)                                       *)
(***************************************************************************)
EXTENDS Naturals, Sequences, FiniteSets, TLC

CONSTANTS MaxItems, Bug,
          Poll      \* BOOLEAN: pulls that are requested and never run (Dangle) are explored

Places == {"same", "other_scope", "outside", "other_task"}
STREAM == 50          \* id standing for the stream's own scope / task group
NOCTX == 93  DEFAULT == 91

VARIABLES place, n, ending, nested, slow, kind, gsp, hc, made,
          \* made: "scope" - the stream is created inside scope S1; "bare" - outside every scope, by a task whose context is empty
          \* scenario (hc: the generator catches a cancellation that reaches it while suspended and yields the item anyway), chosen in Init (slow = k > 0: the generator suspends before
                                                       \* item k - 1; gsp: it spawns a task through the context before its first item)
          pos,        \* items produced so far
          sst,        \* "fresh" | "open" | "pulling" | "draining" | "ended" | "closed" | "cancelled"
          s1done,     \* the creator scope's completion callback ran (it waits for the stream's scope)
          called,     \* the source has been called (on the first pull)
          sp,         \* the task the generator spawned: "none" | "run" | "done" | "cancelled"
          nops, obs

vars == <<place, n, ending, nested, slow, kind, gsp, hc, made, pos, sst, s1done, called, sp, nops, obs>>
scen == <<place, n, ending, nested, slow, kind, gsp, hc, made>>

(* what the consumer sees of its own context: <<state A, metrics scope, task group>> *)
BUSY == 77
Busy == <<BUSY, BUSY, BUSY>>      \* the consumer task is inside __anext__ / aclose: it cannot be probed
Own == CASE place = "same" -> <<1, 1, 1>>
         [] place = "other_scope" -> <<2, 2, 2>>
         [] OTHER -> <<NOCTX, 0, 0>>
Cons(blocked) == IF blocked /\ place # "other_task" THEN Busy ELSE Own

Init == /\ place \in Places /\ n \in 0..MaxItems /\ ending \in {"normal", "error"} /\ nested \in BOOLEAN
        /\ (nested => n >= 2) /\ slow \in 0..n
        \* the source: an async generator function (calling it runs nothing), a plain function that does work when
        \* called and returns the generator ("factory": it reports what it saw when called), or one that raises when called
        /\ kind \in {"agen", "factory", "raising"}
        /\ (kind = "raising" => n = 0 /\ ~nested /\ slow = 0 /\ ending = "normal")
        /\ gsp \in BOOLEAN /\ (gsp => n >= 1 /\ kind = "agen")
        /\ hc \in BOOLEAN /\ (hc => slow > 0)
        /\ made \in {"scope", "bare"} /\ (made = "bare" => place # "same")
        /\ pos = 0 /\ sst = "fresh" /\ s1done = FALSE /\ called = FALSE /\ sp = "none" /\ nops = 0
        /\ obs = [res |-> <<"none", 0, 0, 0, 0>>, cons |-> Own, s1 |-> FALSE, call |-> <<0, 0, 0>>, sp |-> "none"]

CreatorA == IF made = "bare" THEN DEFAULT ELSE 1     \* the state A current where the stream was created (none: the default)
InNested(i) == nested /\ i = 1          \* the generator yields its 2nd item from inside a nested scope (A = 3)
(* an item reports what the generator body saw when it produced it: <<"item", index, state A, metrics scope, task group>>
   (the nested scope is a synchronous one: it has no task group of its own) *)
ItemOf(i) == <<"item", i, IF InNested(i) THEN 3 ELSE CreatorA, IF InNested(i) THEN 3 ELSE STREAM, STREAM>>
Completes == place # "same" /\ made = "scope"   \* S1 was left before consumption started, except in "same" (no S1 at all for "bare")

(* what the source saw when it was called: it is called within the stream's own scope *)
CallView(c) == IF kind = "factory" /\ c THEN (IF Bug = "call_outside_scope" THEN <<1, 1, 1>> ELSE <<CreatorA, STREAM, STREAM>>) ELSE <<0, 0, 0>>
Bound == nops < MaxItems + 4
None5(k) == <<k, 0, 0, 0, 0>>
O(res, blocked, s1, c, spv) == [res |-> res, cons |-> Cons(blocked), s1 |-> s1, call |-> CallView(c), sp |-> spv]
(* leaving the stream's scope with a failure in flight (the generator's error, a close, a cancellation) cancels the task
   spawned into it; a normal end waits for it *)
Aborted(x) == IF x = "run" /\ Bug # "close_awaits_spawned" THEN "cancelled" ELSE x
(* the task is spawned right before the first item is produced *)
SpawnAt(p) == IF gsp /\ p = 0 THEN "run" ELSE sp
EndRes == IF ending = "error" /\ Bug # "swallow_error" THEN <<"err", 0, 0, 0, 0>> ELSE <<"stop", 0, 0, 0, 0>>

Pull ==
  /\ Bound /\ nops' = nops + 1 /\ UNCHANGED scen
  /\ sst \notin {"pulling", "draining"}
  /\ called' = (called \/ sst = "fresh")
  /\ IF sst = "fresh" /\ kind = "raising"
       THEN \* calling the source fails: that is how the stream ends; its scope was entered and is left
            /\ sst' = "ended" /\ pos' = pos /\ s1done' = Completes /\ sp' = sp
            /\ obs' = O(<<"err", 0, 0, 0, 0>>, FALSE, s1done', called', sp')
       ELSE IF sst \in {"fresh", "open"} /\ pos < n /\ slow = pos + 1
       THEN \* the generator suspends before this item: the pulling task waits inside __anext__
            /\ sst' = "pulling" /\ UNCHANGED <<pos, s1done>> /\ sp' = SpawnAt(pos)
            /\ obs' = O(None5("pending"), TRUE, s1done, called', sp')
       ELSE IF sst \in {"fresh", "open"} /\ pos < n
       THEN /\ pos' = pos + 1 /\ sst' = "open" /\ s1done' = s1done /\ sp' = SpawnAt(pos)
            /\ obs' = O(IF Bug = "reorder" /\ n = 2 THEN ItemOf(1 - pos) ELSE ItemOf(pos), FALSE, s1done, called', sp')
       ELSE IF sst \in {"fresh", "open"} /\ sp = "run" /\ ending = "normal"
         THEN \* exhausted, but the stream's scope waits for the task spawned into it: the pulling task waits with it
              /\ sst' = "draining" /\ UNCHANGED <<pos, s1done, sp>>
              /\ obs' = O(None5("pending"), TRUE, s1done, called', sp)
       ELSE IF sst \in {"fresh", "open"}
         THEN /\ sst' = "ended" /\ pos' = pos /\ sp' = Aborted(sp)
              /\ s1done' = IF Bug = "never_completes" THEN s1done ELSE Completes
              /\ obs' = O(EndRes, FALSE, s1done', called', sp')
         ELSE /\ UNCHANGED <<pos, sst, s1done, sp>>      \* exhausted or closed: plain end of iteration
              /\ obs' = O(<<"stop", 0, 0, 0, 0>>, FALSE, s1done, called, sp)

(* the generator goes on and yields the item it was suspended before *)
Release ==
  /\ sst = "pulling" /\ nops' = nops + 1 /\ UNCHANGED scen
  /\ pos' = pos + 1 /\ sst' = "open" /\ s1done' = s1done /\ called' = called /\ sp' = sp
  /\ obs' = O(ItemOf(pos), FALSE, s1done, called, sp)

(* the task the generator spawned ends; a stream that was only waiting for it is over then *)
EndSpawned ==
  /\ sp = "run" /\ nops' = nops + 1 /\ UNCHANGED <<scen, pos, called>>
  /\ sp' = "done"
  /\ IF sst = "draining"
       THEN /\ sst' = "ended" /\ s1done' = Completes
            /\ obs' = O(<<"stop", 0, 0, 0, 0>>, FALSE, s1done', called, sp')
       ELSE /\ UNCHANGED <<sst, s1done>>
            /\ obs' = [obs EXCEPT !.sp = "done"]

(* the pulling task is cancelled while the generator is suspended (or while the exhausted stream waits for its spawned
   task): the cancellation goes through the generator body (which does not handle it), the stream's scope is left - its
   spawned task cancelled - and completes, the task sees the cancellation and its own context again; the stream is finished *)
CancelPull ==
  /\ sst \in {"pulling", "draining"} /\ nops' = nops + 1 /\ UNCHANGED scen /\ called' = called
  /\ IF sst = "pulling" /\ hc
       THEN \* the generator body catches the cancellation and answers with the item: the pending pull gets it, the
            \* stream goes on
            /\ pos' = pos + 1 /\ sst' = "open" /\ UNCHANGED <<s1done, sp>>
            /\ obs' = O(ItemOf(pos), FALSE, s1done, called, sp)
       ELSE /\ pos' = pos /\ sst' = "cancelled" /\ s1done' = IF Bug = "cancel_leaks_scope" THEN s1done ELSE Completes
            /\ sp' = Aborted(sp)
            /\ obs' = O(None5("cancelled"), FALSE, s1done', called, sp')

(* aclose(): ends a stream that was not exhausted; closing a stream that already ended - exhausted, failed, cancelled,
   closed before - is allowed (contextlib.aclosing always does it) and changes nothing *)
Close ==
  /\ Bound /\ sst \notin {"pulling", "draining"}
  /\ sst' = IF sst \in {"fresh", "open"} THEN "closed" ELSE sst
  /\ nops' = nops + 1 /\ UNCHANGED <<scen, pos>>
  /\ s1done' = IF sst \in {"fresh", "open"} THEN Completes ELSE s1done
  /\ called' = called /\ sp' = IF sst \in {"fresh", "open"} THEN Aborted(sp) ELSE sp
  /\ obs' = O(<<"closed", 0, 0, 0, 0>>, FALSE, s1done', called, sp')

(* the consumer just stops iterating (break) and looks at its own context again *)
Abandon ==
  /\ Bound /\ sst = "open" /\ nops' = nops + 1
  /\ UNCHANGED <<scen, pos, sst, s1done, sp>>
  /\ called' = called
  /\ obs' = O(<<"abandoned", 0, 0, 0, 0>>, FALSE, s1done, called, sp)

(* a pull is REQUESTED and never runs a single step (the awaitable is made and dropped; a poll with `wait_for(..., 0)`
   cancels it before it starts): nothing has happened to the stream *)
Dangle ==
  /\ Poll /\ Bound /\ sst \in {"fresh", "open"} /\ nops' = nops + 1
  /\ UNCHANGED <<scen, pos, sst, s1done, called, sp>>
  /\ obs' = O(<<"dangled", 0, 0, 0, 0>>, FALSE, s1done, called, sp)

Next == Pull \/ Release \/ EndSpawned \/ CancelPull \/ Close \/ Abandon \/ Dangle
Spec == Init /\ [][Next]_vars

-----------------------------------------------------------------------------
TypeOK == sst \in {"fresh", "open", "pulling", "draining", "ended", "closed", "cancelled"} /\ pos \in 0..MaxItems

(* C11: exactly the generator's items, in order, then its normal end or its exception *)
ItemsInOrder == /\ (obs.res[1] = "item" => obs.res[2] = pos - 1)
                /\ (obs.res[1] = "err" => (ending = "error" /\ pos = n) \/ kind = "raising")
                /\ (obs.res[1] = "stop" /\ sst = "ended" => pos = n \/ kind = "raising")
(* (stated on the step that ends the stream) *)
EndsWithError == [][(sst \in {"fresh", "open"} /\ sst' = "ended" /\ ending = "error" /\ kind # "raising" /\ pos = n) => obs'.res[1] = "err"]_vars
(* C11: the generator body observes the state current where the stream was created *)
GenSeesCreation == obs.res[1] = "item" => (obs.res[3] = (IF InNested(obs.res[2]) THEN 3 ELSE CreatorA) /\ obs.res[5] = STREAM)
CallSeesStreamScope == obs.call \in {<<0, 0, 0>>, <<CreatorA, STREAM, STREAM>>}
(* every task spawned into the stream's scope has finished once that scope has been left *)
SpawnedSettled == sst \in {"ended", "closed", "cancelled"} => sp # "run"
(* C11: the consumer's own state, metrics scope and task group are unaffected *)
ConsumerIntact == obs.cons = Cons(sst \in {"pulling", "draining"})
(* C11: the stream's scope completes when the stream is exhausted or closed *)
StreamScopeCompletes == sst \in {"ended", "closed", "cancelled"} /\ Completes => s1done
=============================================================================
