------------------------------- MODULE Streams -------------------------------
(***************************************************************************)
(* haiway ctx.stream (property C11): a generator wrapped into a stream     *)
(* that is created in one context (scope S1, state A = 1) and consumed in  *)
(* the same scope, in another scope (A = 2), outside any scope, or item by *)
(* item from other tasks; fully, or abandoned / closed early; the generator *)
(* may suspend before one of its items, and the pulling task may be        *)
(* cancelled while it waits there.                                         *)
(*                                                                         *)
(* The generator body always runs in the creation context (plus its own    *)
(* nested scopes), whichever task pulls; the consumer's context is never   *)
(* touched; the stream's own scope - registered under the creator scope    *)
(* when the stream is made - completes when the stream is exhausted or     *)
(* closed, also when it is closed before its first item.                   *)
(* (The pinned implementation only CREATED the generator in the snapshot   *)
(* and ran its body in whatever context called __anext__; until the repair *)
(* this module described that by deviation actions *_KF_C11 - see git      *)
(* history and DESIGN.md 3.4 / 6.1.)                                       *)
(***************************************************************************)
EXTENDS Naturals, Sequences, FiniteSets, TLC

CONSTANTS MaxItems, Bug

Places == {"same", "other_scope", "outside", "other_task"}
STREAM == 50          \* id standing for the stream's own scope / task group
NOCTX == 93  DEFAULT == 91

VARIABLES place, n, ending, nested, slow, kind,   \* scenario, chosen in Init (slow = k > 0: the generator suspends before item k - 1)
          pos,        \* items produced so far
          sst,        \* "fresh" | "open" | "pulling" | "ended" | "closed" | "cancelled"
          s1done,     \* the creator scope's completion callback ran (it waits for the stream's scope)
          called,     \* the source has been called (on the first pull)
          nops, obs

vars == <<place, n, ending, nested, slow, kind, pos, sst, s1done, called, nops, obs>>
scen == <<place, n, ending, nested, slow, kind>>

(* what the consumer sees of its own context: <<state A, metrics scope, task group>> *)
BUSY == 77
Busy == <<BUSY, BUSY, BUSY>>      \* the consumer task is inside __anext__: it cannot be probed
Own == CASE place = "same" -> <<1, 1, 1>>
         [] place = "other_scope" -> <<2, 2, 2>>
         [] OTHER -> <<NOCTX, 0, 0>>

Init == /\ place \in Places /\ n \in 0..MaxItems /\ ending \in {"normal", "error"} /\ nested \in BOOLEAN
        /\ (nested => n >= 2) /\ slow \in 0..n
        \* the source: an async generator function (calling it runs nothing), a plain function that does work when
        \* called and returns the generator ("factory": it reports what it saw when called), or one that raises when called
        /\ kind \in {"agen", "factory", "raising"}
        /\ (kind = "raising" => n = 0 /\ ~nested /\ slow = 0 /\ ending = "normal")
        /\ pos = 0 /\ sst = "fresh" /\ s1done = FALSE /\ called = FALSE /\ nops = 0
        /\ obs = [res |-> <<"none", 0, 0, 0, 0>>, cons |-> Own, s1 |-> FALSE, call |-> <<0, 0, 0>>]

InNested(i) == nested /\ i = 1          \* the generator yields its 2nd item from inside a nested scope (A = 3)
(* an item reports what the generator body saw when it produced it: <<"item", index, state A, metrics scope, task group>>
   (the nested scope is a synchronous one: it has no task group of its own) *)
ItemOf(i) == <<"item", i, IF InNested(i) THEN 3 ELSE 1, IF InNested(i) THEN 3 ELSE STREAM, STREAM>>
Completes == place # "same"              \* S1 was left before consumption started, except in "same"

(* what the source saw when it was called: it is called within the stream's own scope *)
CallView(c) == IF kind = "factory" /\ c THEN (IF Bug = "call_outside_scope" THEN <<1, 1, 1>> ELSE <<1, STREAM, STREAM>>) ELSE <<0, 0, 0>>
Bound == nops < MaxItems + 3
None5(k) == <<k, 0, 0, 0, 0>>

Pull ==
  /\ Bound /\ nops' = nops + 1 /\ UNCHANGED scen
  /\ sst # "pulling"
  /\ called' = (called \/ sst = "fresh")
  /\ IF sst = "fresh" /\ kind = "raising"
       THEN \* calling the source fails: that is how the stream ends; its scope was entered and is left
            /\ sst' = "ended" /\ pos' = pos /\ s1done' = Completes
            /\ obs' = [res |-> <<"err", 0, 0, 0, 0>>, cons |-> Own, s1 |-> s1done', call |-> CallView(called')]
       ELSE IF sst \in {"fresh", "open"} /\ pos < n /\ slow = pos + 1
       THEN \* the generator suspends before this item: the pulling task waits inside __anext__
            /\ sst' = "pulling" /\ UNCHANGED <<pos, s1done>>
            /\ obs' = [res |-> None5("pending"), cons |-> IF place = "other_task" THEN Own ELSE Busy, s1 |-> s1done,
                       call |-> CallView(called')]
       ELSE IF sst \in {"fresh", "open"} /\ pos < n
       THEN /\ pos' = pos + 1 /\ sst' = "open" /\ s1done' = s1done
            /\ obs' = [res |-> IF Bug = "reorder" /\ n = 2 THEN ItemOf(1 - pos) ELSE ItemOf(pos), cons |-> Own, s1 |-> s1done,
                       call |-> CallView(called')]
       ELSE IF sst \in {"fresh", "open"}
         THEN /\ sst' = "ended" /\ pos' = pos
              /\ s1done' = IF Bug = "never_completes" THEN s1done ELSE Completes
              /\ obs' = [res |-> IF ending = "error" /\ Bug # "swallow_error" THEN <<"err", 0, 0, 0, 0>> ELSE <<"stop", 0, 0, 0, 0>>,
                         cons |-> Own, s1 |-> s1done', call |-> CallView(called')]
         ELSE /\ UNCHANGED <<pos, sst, s1done>>      \* exhausted or closed: plain end of iteration
              /\ obs' = [res |-> <<"stop", 0, 0, 0, 0>>, cons |-> Own, s1 |-> s1done, call |-> CallView(called)]

(* the generator goes on and yields the item it was suspended before *)
Release ==
  /\ sst = "pulling" /\ nops' = nops + 1 /\ UNCHANGED scen
  /\ pos' = pos + 1 /\ sst' = "open" /\ s1done' = s1done /\ called' = called
  /\ obs' = [res |-> ItemOf(pos), cons |-> Own, s1 |-> s1done, call |-> CallView(called)]

(* the pulling task is cancelled while the generator is suspended: the cancellation goes through the generator body
   (which does not handle it), the stream's scope is left and completes, the task sees the cancellation and its own
   context again; the stream is finished *)
CancelPull ==
  /\ sst = "pulling" /\ nops' = nops + 1 /\ UNCHANGED <<scen, pos>>
  /\ sst' = "cancelled" /\ s1done' = IF Bug = "cancel_leaks_scope" THEN s1done ELSE Completes
  /\ called' = called
  /\ obs' = [res |-> None5("cancelled"), cons |-> Own, s1 |-> s1done', call |-> CallView(called)]

(* aclose(): ends a stream that was not exhausted; closing a stream that already ended - exhausted, failed, cancelled,
   closed before - is allowed (contextlib.aclosing always does it) and changes nothing *)
Close ==
  /\ Bound /\ sst # "pulling"
  /\ sst' = IF sst \in {"fresh", "open"} THEN "closed" ELSE sst
  /\ nops' = nops + 1 /\ UNCHANGED <<scen, pos>>
  /\ s1done' = IF sst \in {"fresh", "open"} THEN Completes ELSE s1done
  /\ called' = called
  /\ obs' = [res |-> <<"closed", 0, 0, 0, 0>>, cons |-> Own, s1 |-> s1done', call |-> CallView(called)]

(* the consumer just stops iterating (break) and looks at its own context again *)
Abandon ==
  /\ Bound /\ sst = "open" /\ nops' = nops + 1
  /\ UNCHANGED <<scen, pos, sst, s1done>>
  /\ called' = called
  /\ obs' = [res |-> <<"abandoned", 0, 0, 0, 0>>, cons |-> Own, s1 |-> s1done, call |-> CallView(called)]

Next == Pull \/ Release \/ CancelPull \/ Close \/ Abandon
Spec == Init /\ [][Next]_vars

-----------------------------------------------------------------------------
TypeOK == sst \in {"fresh", "open", "pulling", "ended", "closed", "cancelled"} /\ pos \in 0..MaxItems

(* C11: exactly the generator's items, in order, then its normal end or its exception *)
ItemsInOrder == /\ (obs.res[1] = "item" => obs.res[2] = pos - 1)
                /\ (obs.res[1] = "err" => (ending = "error" /\ pos = n) \/ kind = "raising")
                /\ (obs.res[1] = "stop" /\ sst = "ended" => pos = n \/ kind = "raising")
EndsWithError == sst = "ended" /\ ending = "error" /\ obs.res[1] \in {"err", "stop"} /\ nops = n + 1 + (IF slow > 0 THEN 1 ELSE 0) => obs.res[1] = "err"
(* C11: the generator body observes the state current where the stream was created *)
GenSeesCreation == obs.res[1] = "item" => (obs.res[3] = (IF InNested(obs.res[2]) THEN 3 ELSE 1) /\ obs.res[5] = STREAM)
CallSeesStreamScope == obs.call \in {<<0, 0, 0>>, <<1, STREAM, STREAM>>}
(* C11: the consumer's own state, metrics scope and task group are unaffected *)
ConsumerIntact == obs.cons = (IF sst = "pulling" /\ place # "other_task" THEN Busy ELSE Own)
(* C11: the stream's scope completes when the stream is exhausted or closed *)
StreamScopeCompletes == sst \in {"ended", "closed", "cancelled"} /\ Completes => s1done
=============================================================================
