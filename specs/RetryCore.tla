------------------------------ MODULE RetryCore ------------------------------
(***************************************************************************)
(* The counting core of Retry.tla for an ARBITRARY limit: what Apalache     *)
(* proves by induction (no bound on limit), and what Retry.tla is checked  *)
(* by TLC to refine for the limits it enumerates.                           *)
(***************************************************************************)
EXTENDS Integers

VARIABLES
  \* @type: Int;
  limit,
  \* @type: Int;
  calls,
  \* @type: Int;
  attempt,
  \* @type: Str;
  status

vars == <<limit, calls, attempt, status>>

Init == /\ limit \in Nat /\ limit >= 1
        /\ calls = 0 /\ attempt = 0 /\ status = "running"

(* o: "ok" - success; "caught" - an exception the wrapper may retry; "final" - anything it never retries *)
Attempt(o) ==
  /\ status = "running"
  /\ calls' = calls + 1 /\ limit' = limit
  /\ IF o = "ok" THEN status' = "returned" /\ attempt' = attempt
     ELSE IF o = "caught" /\ attempt < limit THEN status' = "running" /\ attempt' = attempt + 1
     ELSE status' = "raised" /\ attempt' = attempt

CancelInPause == /\ status = "running" /\ attempt >= 1
                 /\ status' = "raised" /\ UNCHANGED <<limit, calls, attempt>>

Next == (\E o \in {"ok", "caught", "final"} : Attempt(o)) \/ CancelInPause
Spec == Init /\ [][Next]_vars

(* the inductive invariant: every retry was preceded by exactly one call; at most `limit` retries *)
IndInv ==
  /\ limit \in Nat /\ limit >= 1
  /\ calls \in Nat /\ attempt \in Nat
  /\ status \in {"running", "returned", "raised"}
  /\ attempt <= limit
  /\ (status = "running" => calls = attempt)
  /\ (status # "running" => (calls = attempt + 1 \/ calls = attempt))

(* C14: never more than limit + 1 calls - for every limit *)
CallsBound == calls <= limit + 1
=============================================================================
