-------------------------------- MODULE Cache --------------------------------
(***************************************************************************)
(* haiway.helpers.caching.cache, calls made one after the other            *)
(* (property C12): sync function, sync method, async function and async    *)
(* method awaited sequentially.  One action per call; the clock is moved   *)
(* by the environment.  The wrapped function's outcome (value / raises)    *)
(* is the environment's choice for every call and only matters when the    *)
(* function is actually invoked.                                           *)
(* C12 is stated over ghost histories (uses, invKey, invAt), not over the  *)
(* table the actions maintain.                                             *)
(***************************************************************************)
EXTENDS Naturals, Sequences, FiniteSets, TLC

CONSTANTS NKeys,         \* argument tuples 1..NKeys: distinct cache keys although ==-equal (1, 1.0, True, x=1)
          NRecv,         \* instances 1..NRecv for the method forms (==-equal but distinct objects); 0 = plain function
          Forms,         \* subset of {"sync_fn", "sync_method", "async_fn", "async_method"}
          Limits, Expirations, MaxT, MaxOps,
          Outs,          \* outcomes the wrapped function may have: subset of {"val", "exc"}
          Steps,         \* clock increments the environment may make in one Advance
          MaxRenew,      \* how often a receiver may be discarded and replaced by a new instance
          Nested,        \* BOOLEAN: re-entrant calls (the function body calls the same cached function) are explored
          Bug

LRU == INSTANCE CacheLRU
Keys == 1..NKeys
Receivers == 1..NRecv

VARIABLES form, limit, expn,   \* configuration chosen in Init (expn = 0: no expiration)
          now,
          entries,             \* LRU table
          ninv,                \* invocations of the wrapped function so far
          invKey, invAt, invOut, \* ghost: key, time and outcome of invocation i
          uses,                \* ghost: keys called, in order
          rid, nrid, nren,     \* identity of the instance currently in each receiver slot; identities handed out; renewals
          nops, drained,
          obs                  \* [inv, fresh, out, at, drain]: which invocation's outcome the caller got

vars == <<form, limit, expn, now, entries, ninv, invKey, invAt, invOut, uses, rid, nrid, nren, nops, drained, obs>>
conf == <<form, limit, expn>>

IsMethod == form \in {"sync_method", "async_method"}
IsAsync == form \in {"async_fn", "async_method"}
Recv == IF IsMethod THEN Receivers ELSE {0}
KeyOf(r, k) == <<IF r = 0 THEN 0 ELSE rid[r], k>>      \* the key names the INSTANCE, not the slot

Init == /\ form \in Forms /\ limit \in Limits /\ expn \in Expirations
        /\ now = 0 /\ entries = <<>> /\ ninv = 0
        /\ invKey = <<>> /\ invAt = <<>> /\ invOut = <<>> /\ uses = <<>> /\ nops = 0
        /\ drained = FALSE
        /\ rid = [r \in Receivers |-> r] /\ nrid = NRecv /\ nren = 0
        /\ obs = [inv |-> 0, fresh |-> FALSE, out |-> "none", at |-> 0, drain |-> <<>>]

(* one call with receiver r and arguments k; o is what the function does if it gets invoked *)
Call(r, k, o) ==
  /\ nops < MaxOps /\ nops' = nops + 1 /\ ~drained
  /\ r \in Recv
  /\ LET key == KeyOf(r, k) IN
     /\ uses' = Append(uses, key)
     /\ IF LRU!Hit(entries, key, now, Bug)
          THEN LET i == LRU!Idx(entries, key) IN
               /\ entries' = LRU!Touch(entries, key, Bug)
               /\ obs' = [inv |-> entries[i].inv, fresh |-> FALSE, out |-> invOut[entries[i].inv], at |-> now,
                          drain |-> <<>>]
               /\ UNCHANGED <<ninv, invKey, invAt, invOut>>
          ELSE LET n == ninv + 1 IN
               /\ ninv' = n
               /\ invKey' = Append(invKey, key) /\ invAt' = Append(invAt, now) /\ invOut' = Append(invOut, o)
               /\ entries' = IF o = "exc" /\ ~IsAsync
                               THEN LRU!Dropped(entries, key)       \* sync: a raising call stores nothing
                               ELSE LRU!Stored(entries, key, n, now, expn, limit, Bug)
               /\ obs' = [inv |-> n, fresh |-> TRUE, out |-> o, at |-> now, drain |-> <<>>]
  /\ UNCHANGED <<conf, now, drained, rid, nrid, nren>>

(* RE-ENTRANCY: a call with arguments k whose function body - if it gets invoked - calls the same cached function (same
   receiver) with other arguments k2 before it returns (memoised recursion); both return values.  Synchronous forms: the
   inner call is looked up, answered or invoked and stored - and the table trimmed - before the outer result is stored. *)
Plain(es, n, key) ==
  IF LRU!Hit(es, key, now, Bug)
    THEN [es |-> LRU!Touch(es, key, Bug), n |-> n, inv |-> es[LRU!Idx(es, key)].inv, fresh |-> FALSE]
    ELSE [es |-> LRU!Stored(es, key, n + 1, now, expn, limit, Bug), n |-> n + 1, inv |-> n + 1, fresh |-> TRUE]
CallNested(r, k, k2) ==
  /\ Nested /\ ~IsAsync /\ k # k2
  /\ nops < MaxOps /\ nops' = nops + 1 /\ ~drained
  /\ r \in Recv
  /\ LET key == KeyOf(r, k)
         key2 == KeyOf(r, k2) IN
     IF LRU!Hit(entries, key, now, Bug)
       THEN LET i == LRU!Idx(entries, key) IN      \* answered from the cache: the body does not run, nothing is nested
            /\ uses' = Append(uses, key)
            /\ entries' = LRU!Touch(entries, key, Bug)
            /\ obs' = [inv |-> entries[i].inv, fresh |-> FALSE, out |-> invOut[entries[i].inv], at |-> now, drain |-> <<>>]
            /\ UNCHANGED <<ninv, invKey, invAt, invOut>>
       ELSE LET n == ninv + 1                                           \* the outer invocation starts first
                inner == Plain(LRU!Dropped(entries, key), n, key2) IN  \* ... its body calls f(k2)
            /\ uses' = uses \o <<key2, key>>                          \* (recency: k2 is touched before k is stored)
            /\ ninv' = inner.n
            /\ invKey' = IF inner.fresh THEN invKey \o <<key, key2>> ELSE Append(invKey, key)
            /\ invAt' = IF inner.fresh THEN invAt \o <<now, now>> ELSE Append(invAt, now)
            /\ invOut' = IF inner.fresh THEN invOut \o <<"val", "val">> ELSE Append(invOut, "val")
            /\ entries' = LRU!Stored(inner.es, key, n, now, expn, limit, Bug)
            \* the caller gets the outer invocation's value; `drain` shows which invocation answered the inner call
            /\ obs' = [inv |-> n, fresh |-> TRUE, out |-> "val", at |-> now, drain |-> <<inner.inv>>]
  /\ UNCHANGED <<conf, now, drained, rid, nrid, nren>>

(* a SLOW computation: the clock advances by dt while the wrapped function runs (synchronous forms).  The lookup sees the
   time of the call; the entry's life starts when the result is STORED - the time the computation took is not taken off
   it (a result that took longer to compute than the expiration is still served once) *)
CallSlow(r, k, dt) ==
  /\ Nested /\ ~IsAsync /\ now + dt <= MaxT
  /\ nops < MaxOps /\ nops' = nops + 1 /\ ~drained
  /\ r \in Recv
  /\ LET key == KeyOf(r, k) IN
     /\ uses' = Append(uses, key)
     /\ IF LRU!Hit(entries, key, now, Bug)
          THEN LET i == LRU!Idx(entries, key) IN
               /\ entries' = LRU!Touch(entries, key, Bug) /\ now' = now
               /\ obs' = [inv |-> entries[i].inv, fresh |-> FALSE, out |-> invOut[entries[i].inv], at |-> now, drain |-> <<>>]
               /\ UNCHANGED <<ninv, invKey, invAt, invOut>>
          ELSE LET n == ninv + 1 IN
               /\ ninv' = n /\ now' = now + dt
               /\ invKey' = Append(invKey, key) /\ invAt' = Append(invAt, now + dt) /\ invOut' = Append(invOut, "val")
               /\ entries' = LRU!Stored(entries, key, n, now + dt, expn, limit, Bug)
               /\ obs' = [inv |-> n, fresh |-> TRUE, out |-> "val", at |-> now + dt, drain |-> <<>>]
  /\ UNCHANGED <<conf, drained, rid, nrid, nren>>

(* the instance in receiver slot r is discarded (garbage collected) and a NEW instance takes the slot: whatever the old
   one had cached is not the new one's - its entries linger in the table until evicted, but nothing may serve them *)
Renew(r) ==
  /\ IsMethod /\ r \in Receivers /\ nren < MaxRenew /\ nren' = nren + 1
  /\ nops < MaxOps /\ nops' = nops + 1 /\ ~drained
  /\ nrid' = nrid + 1 /\ rid' = [rid EXCEPT ![r] = nrid + 1]
  /\ UNCHANGED <<conf, now, entries, ninv, invKey, invAt, invOut, uses, drained, obs>>

Advance(dt) == /\ now + dt <= MaxT /\ now' = now + dt /\ ~drained /\ nops < MaxOps /\ nops' = nops + 1
           /\ UNCHANGED <<conf, entries, ninv, invKey, invAt, invOut, uses, drained, obs, rid, nrid, nren>>

(* epilogue from every state: call every (receiver, key) once more, in a fixed order; which
   invocation answers each of them exposes the hidden table (LRU order, expiry, eviction) *)
DrainSeq == LET rs == IF IsMethod THEN NRecv ELSE 1 IN
            [i \in 1..(rs * NKeys) |-> <<IF IsMethod THEN rid[1 + ((i - 1) \div NKeys)] ELSE 0, 1 + ((i - 1) % NKeys)>>]
RECURSIVE DrainFrom(_, _, _, _)
DrainFrom(es, n, i, acc) ==
  IF i > Len(DrainSeq) THEN acc
  ELSE LET key == DrainSeq[i] IN
       IF LRU!Hit(es, key, now, Bug)
         THEN DrainFrom(LRU!Touch(es, key, Bug), n, i + 1, Append(acc, es[LRU!Idx(es, key)].inv))
         ELSE DrainFrom(LRU!Stored(es, key, n + 1, now, expn, limit, Bug), n + 1, i + 1, Append(acc, n + 1))
Drain == /\ ~drained /\ drained' = TRUE
         /\ obs' = [inv |-> 0, fresh |-> FALSE, out |-> "none", at |-> now, drain |-> DrainFrom(entries, ninv, 1, <<>>)]
         /\ UNCHANGED <<conf, now, entries, ninv, invKey, invAt, invOut, uses, nops, rid, nrid, nren>>

Next == (\E dt \in Steps : Advance(dt)) \/ Drain \/ (\E r \in Receivers : Renew(r))
        \/ (\E r \in Receivers \cup {0}, k \in Keys, o \in Outs : Call(r, k, o))
        \/ (\E r \in Receivers \cup {0}, k \in Keys, k2 \in Keys : CallNested(r, k, k2))
        \/ (\E r \in Receivers \cup {0}, k \in Keys, dt \in Steps : CallSlow(r, k, dt))
Spec == Init /\ [][Next]_vars

-----------------------------------------------------------------------------
TypeOK == /\ ninv = Len(invKey) /\ Len(invAt) = ninv /\ Len(invOut) = ninv
          /\ \A i \in DOMAIN entries : entries[i].inv \in 1..ninv

(* C12: never keeps more than `limit` entries alive *)
Capacity == Len(entries) <= limit
NoDuplicateKeys == \A i, j \in DOMAIN entries : entries[i].key = entries[j].key => i = j

(* C12: returns only what the function produced for exactly that key (arguments and instance),
   never from an entry older than its expiration *)
Sound == obs.inv # 0 =>
           /\ invKey[obs.inv] = uses[Len(uses)]
           /\ obs.out = invOut[obs.inv]
           /\ expn # 0 => obs.at <= invAt[obs.inv] + expn

LastInv(key) == IF \E i \in DOMAIN invKey : invKey[i] = key
                  THEN CHOOSE i \in DOMAIN invKey : invKey[i] = key /\ \A j \in DOMAIN invKey : invKey[j] = key => j <= i
                  ELSE 0

(* C12: answers from the cache, without calling the function, whenever the key is among the
   `limit` most recently used keys and its last (stored) invocation is unexpired *)
Complete == [][\A r \in Receivers \cup {0}, k \in Keys :
                 LET key == KeyOf(r, k) IN
                 (/\ uses' = Append(uses, key)
                  /\ key \in LRU!Recent(uses, limit)
                  /\ LastInv(key) # 0
                  /\ (IsAsync \/ invOut[LastInv(key)] = "val")
                  /\ (expn = 0 \/ now <= invAt[LastInv(key)] + expn))
                 => ninv' = ninv]_vars
=============================================================================
