-------------------------------- MODULE Mimic --------------------------------
(***************************************************************************)
(* haiway.utils.mimic.mimic_function - beyond the twenty listed properties *)
(* (every decorator of C12 - C18 dresses its wrapper with it).             *)
(*                                                                         *)
(* mimic_function(source, within=target) / mimic_function(source)(target): *)
(*  1. for each of nine function attributes, in order: when the source HAS *)
(*     it and the target ACCEPTS it, the target's becomes the source's;    *)
(*     otherwise the target's is left as it was;                           *)
(*  2. entries of the source's __dict__ are copied into the target's       *)
(*     __dict__ unless the target already has the key (a wrapper object's  *)
(*     own state is never replaced); a side without __dict__ skips this;   *)
(*  3. target.__wrapped__ = source, unconditionally (also when the target  *)
(*     had one, also when the source carries its own - the chain is        *)
(*     target -> source -> ...); a target that accepts no attributes at    *)
(*     all makes this step - and so the call - fail with AttributeError;   *)
(*  4. the result IS the target.                                           *)
(*                                                                         *)
(* Which attributes a kind of callable has / accepts is a table of Python  *)
(* facts (checked against the interpreter by the conformance walk).        *)
(***************************************************************************)
EXTENDS Naturals, Sequences, FiniteSets, TLC

CONSTANTS MaxOps, Bug

Attrs == <<"module", "name", "qualname", "doc", "annotations", "type_params", "defaults", "kwdefaults", "globals">>
AttrSet == {Attrs[i] : i \in DOMAIN Attrs}
Keys == {"x", "y"}
SrcKinds == {"func", "obj", "slot", "builtin"}
TgtKinds == {"func", "obj", "slot"}
Sources == {"f", "g"}

Has(kind) == CASE kind = "func" -> AttrSet
               [] kind = "builtin" -> {"module", "name", "qualname", "doc"}
               [] OTHER -> {"module", "doc"}                      \* instances see their class's
Accepts(kind) == CASE kind = "func" -> AttrSet \ {"globals"}      \* read-only on functions
                   [] kind = "obj" -> AttrSet
                   [] OTHER -> {}
Orig(kind) == CASE kind = "func" -> AttrSet [] OTHER -> {"module", "doc"}
HasDict(kind) == kind \in {"func", "obj"}

VARIABLES skind,    \* [Sources -> SrcKinds]
          sdict,    \* [Sources -> [Keys -> BOOLEAN]]   the source's __dict__ has the key
          sw,       \* [Sources -> BOOLEAN]             the source carries its own __wrapped__
          tkind,
          tattr,    \* [AttrSet -> {"none", "own", "f", "g"}]
          tdict,    \* [Keys -> {"-", "own", "f", "g"}]
          wrapped,  \* "-" | "own" | "f" | "g"
          nops, obs

vars == <<skind, sdict, sw, tkind, tattr, tdict, wrapped, nops, obs>>

Init == /\ skind \in [Sources -> SrcKinds] /\ skind["g"] # "builtin"
        /\ sdict \in [Sources -> [Keys -> BOOLEAN]]
        /\ \A s \in Sources : ~HasDict(skind[s]) => \A k \in Keys : ~sdict[s][k]
        /\ sw \in [Sources -> BOOLEAN]
        /\ \A s \in Sources : ~HasDict(skind[s]) => ~sw[s]
        /\ tkind \in TgtKinds
        /\ tattr = [a \in AttrSet |-> IF a \in Orig(tkind) THEN "own" ELSE "none"]
        /\ tdict \in [Keys -> {"-", "own"}]
        /\ (~HasDict(tkind) => \A k \in Keys : tdict[k] = "-")
        /\ wrapped \in {"-", "own"}
        /\ (~HasDict(tkind) => wrapped = "-")
        /\ nops = 0
        /\ obs = [k |-> "init", attr |-> tattr, dict |-> tdict, wrapped |-> wrapped, res |-> "none"]

Mimic(s, form) ==
  /\ nops < MaxOps /\ nops' = nops + 1
  /\ UNCHANGED <<skind, sdict, sw, tkind>>
  /\ LET takes(a) == a \in Has(skind[s]) /\ a \in Accepts(tkind)
         na == [a \in AttrSet |-> IF takes(a) THEN s ELSE tattr[a]]
         nd == [k \in Keys |-> IF HasDict(tkind) /\ sdict[s][k] /\ (tdict[k] = "-" \/ Bug = "overwrite_dict") THEN s ELSE tdict[k]]
         fails == tkind = "slot"
     IN /\ tattr' = na /\ tdict' = nd
        /\ wrapped' = IF fails THEN wrapped
                      ELSE IF Bug = "keep_own_wrapped" /\ wrapped # "-" THEN wrapped ELSE s
        /\ obs' = [k |-> "mimic", attr |-> na, dict |-> nd, wrapped |-> wrapped', res |-> IF fails THEN "AttributeError" ELSE "target"]

Next == \E s \in Sources, form \in {"within", "decorator"} : Mimic(s, form)
Spec == Init /\ [][Next]_vars

-----------------------------------------------------------------------------
(* what the target itself defined in its __dict__ is never replaced *)
OwnStateKept == [][\A k \in Keys : tdict[k] # "-" => tdict'[k] = tdict[k]]_vars
(* after a successful call the target unwraps to the source it was given - whatever either carried before *)
WrappedIsSource == [][\A s \in Sources : (obs'.k = "mimic" /\ obs'.res = "target" /\ <<Mimic(s, "within")>>_vars) => wrapped' = s]_vars
(* attributes only ever come from the target itself or from a source that has them *)
AttrOrigin == \A a \in AttrSet : tattr[a] \in Sources => a \in Has(skind[tattr[a]]) /\ a \in Accepts(tkind)
(* the last source given wins for everything it has and the target accepts *)
LastWins == [][\A s \in Sources : <<Mimic(s, "within")>>_vars =>
                 \A a \in Has(skind[s]) \cap Accepts(tkind) : tattr'[a] = s]_vars
=============================================================================
