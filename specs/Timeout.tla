------------------------------ MODULE Timeout ------------------------------
(***************************************************************************)
(* haiway.helpers.timeouted.timeout (property C16): one call through the   *)
(* wrapper as a race between three parties                                  *)
(*   - the inner task running the wrapped function,                         *)
(*   - the timer armed for the deadline T,                                  *)
(*   - the caller awaiting the result future (and possibly cancelled).      *)
(* Every event-loop callback of the implementation is one internal action   *)
(* (FnStep, TimerFire, OnCompletion, OnResult, CallerWake); the ready set   *)
(* is unordered, so every order in which the loop may run callbacks that    *)
(* became ready at the same instant is a behaviour (ties are "either").     *)
(* The environment moves time, lets the wrapped function finish with an     *)
(* outcome of its choice, and cancels the caller.                           *)
(***************************************************************************)
EXTENDS Naturals, Sequences, FiniteSets, TLC

CONSTANTS MaxT,       \* time horizon
          MaxDeadline,\* deadlines 1..MaxDeadline
          Bug

Outcomes == {"val", "exc", "base", "selfcancel"}
Never == 99

VARIABLES T,          \* the configured timeout (chosen in Init)
          obey,       \* whether the function obeys its first cancellation (it always obeys a second one)
          now,
          task,       \* "running" | "val" | "exc" | "base" | "cancelled"
          gate,       \* "closed" | an outcome about to be delivered to the function
          creq,       \* cancellation requests made to the inner task
          cpend,      \* a CancelledError is waiting to be thrown into the function
          seen,       \* CancelledErrors the function has observed
          fut,        \* result future: "pending" | "val" | "exc" | "base" | "cancelled" | "timeout"
          timer,      \* "armed" | "cancelled" | "fired"
          caller,     \* "waiting" | "val" | "exc" | "base" | "cancelled" | "timeout"
          gotAt,      \* when the caller got its answer
          rdy,        \* callbacks ready to run: subset of {"fn", "on_completion", "on_result", "caller_wake"}
          errs,       \* exceptions escaping loop callbacks
          fnEndAt, fnEnd, cancelAt,   \* ghosts: when/how the function ended, when the caller was cancelled
          tie,        \* ghost: the function's end and the deadline fell into the same instant
          hold,       \* the environment withholds the caller's wake-up (to act between "future resolved" and "caller resumed")
          ccp,        \* the caller task was cancelled while its future was already resolved (delivered at its wake-up)
          obs

vars == <<T, obey, now, task, gate, creq, cpend, seen, fut, timer, caller, gotAt, rdy, errs,
          fnEndAt, fnEnd, cancelAt, tie, hold, ccp, obs>>
scen == <<T, obey>>

Init == /\ T \in 0..MaxDeadline /\ obey \in BOOLEAN      \* (a timeout of 0: the deadline is the instant of the call)
        /\ now = 0 /\ task = "running" /\ gate = "closed" /\ creq = 0 /\ cpend = FALSE /\ seen = 0
        /\ fut = "pending" /\ timer = "armed" /\ caller = "waiting" /\ gotAt = 0
        /\ rdy = {} /\ errs = 0
        /\ fnEndAt = Never /\ fnEnd = "none" /\ cancelAt = Never /\ tie = FALSE /\ hold = FALSE /\ ccp = FALSE
        /\ obs = [caller |-> "waiting", at |-> 0, fn |-> "running", seen |-> 0, timers |-> 1, errs |-> 0]

FutCallbacks == {"on_result", "caller_wake"}
TimerDue == timer = "armed" /\ now >= T

-----------------------------------------------------------------------------
(* internal: the inner task runs one step of the wrapped function *)
FnStep ==
  /\ "fn" \in rdy /\ task = "running"
  /\ IF cpend
       THEN \* CancelledError thrown into the function
            /\ seen' = seen + 1 /\ cpend' = FALSE
            /\ IF obey \/ seen >= 1
                 THEN /\ task' = "cancelled" /\ gate' = "closed"
                      /\ rdy' = (rdy \ {"fn"}) \cup {"on_completion"}
                      /\ fnEndAt' = now /\ fnEnd' = "cancelled_by_request"
                 ELSE \* swallowed: carries on; an outcome already delivered is used right away
                      IF gate # "closed"
                        THEN /\ task' = IF gate = "selfcancel" THEN "cancelled" ELSE gate
                             /\ gate' = "closed"
                             /\ rdy' = (rdy \ {"fn"}) \cup {"on_completion"}
                             /\ fnEndAt' = now /\ fnEnd' = gate
                        ELSE /\ rdy' = rdy \ {"fn"}
                             /\ UNCHANGED <<task, gate, fnEndAt, fnEnd>>
       ELSE /\ gate # "closed"
            /\ task' = IF gate = "selfcancel" THEN "cancelled" ELSE gate
            /\ gate' = "closed"
            /\ rdy' = (rdy \ {"fn"}) \cup {"on_completion"}
            /\ fnEndAt' = now /\ fnEnd' = gate
            /\ UNCHANGED <<seen, cpend>>
  /\ UNCHANGED <<scen, now, creq, fut, timer, caller, gotAt, errs, cancelAt, tie, hold, ccp, obs>>

(* internal: the deadline timer fires *)
TimerFire ==
  /\ TimerDue
  /\ timer' = "fired"
  /\ IF fut = "pending" THEN fut' = "timeout" /\ rdy' = rdy \cup FutCallbacks
                        ELSE UNCHANGED <<fut, rdy>>
  /\ UNCHANGED <<scen, now, task, gate, creq, cpend, seen, caller, gotAt, errs, fnEndAt, fnEnd, cancelAt, tie, hold, ccp, obs>>

(* internal: done-callback of the inner task *)
OnCompletion ==
  /\ "on_completion" \in rdy
  /\ timer' = IF timer = "armed" THEN "cancelled" ELSE timer
  /\ IF fut # "pending"
       THEN /\ rdy' = rdy \ {"on_completion"} /\ UNCHANGED <<fut, errs>>
       ELSE IF Bug = "only_exception" /\ task \in {"base", "cancelled"}
         THEN \* the callback itself raises: future stays pending, timer already cancelled
              /\ rdy' = rdy \ {"on_completion"} /\ errs' = errs + 1 /\ UNCHANGED fut
         ELSE /\ fut' = task /\ rdy' = (rdy \ {"on_completion"}) \cup FutCallbacks /\ UNCHANGED errs
  /\ UNCHANGED <<scen, now, task, gate, creq, cpend, seen, caller, gotAt, fnEndAt, fnEnd, cancelAt, tie, hold, ccp, obs>>

(* internal: done-callback of the result future - the inner task must not keep running *)
OnResult ==
  /\ "on_result" \in rdy
  /\ IF task = "running" /\ Bug # "no_task_cancel"
       THEN /\ creq' = creq + 1 /\ cpend' = TRUE /\ rdy' = (rdy \ {"on_result"}) \cup {"fn"}
       ELSE /\ rdy' = rdy \ {"on_result"} /\ UNCHANGED <<creq, cpend>>
  /\ UNCHANGED <<scen, now, task, gate, seen, fut, timer, caller, gotAt, errs, fnEndAt, fnEnd, cancelAt, tie, hold, ccp, obs>>

(* internal: the caller resumes with whatever the future holds *)
CallerWake ==
  /\ "caller_wake" \in rdy /\ ~hold
  /\ rdy' = rdy \ {"caller_wake"}
  /\ IF caller = "waiting"
       THEN /\ caller' = IF ccp /\ Bug # "late_cancel_swallowed" THEN "cancelled" ELSE fut   \* a pending cancellation wins
            /\ gotAt' = now
       ELSE UNCHANGED <<caller, gotAt>>
  /\ UNCHANGED <<scen, now, task, gate, creq, cpend, seen, fut, timer, errs, fnEndAt, fnEnd, cancelAt, tie, hold, ccp, obs>>

Internal == FnStep \/ TimerFire \/ OnCompletion \/ OnResult \/ CallerWake
Quiet == (rdy \ (IF hold THEN {"caller_wake"} ELSE {})) = {} /\ ~TimerDue

Cur == [caller |-> caller, at |-> gotAt, fn |-> task, seen |-> seen,
        timers |-> IF timer = "armed" THEN 1 ELSE 0, errs |-> errs]
Rest == Quiet /\ obs = Cur      \* at rest and observed

-----------------------------------------------------------------------------
(* environment *)
Deliver(o) == /\ task = "running" /\ gate = "closed" /\ gate' = o /\ rdy' = rdy \cup {"fn"}

(* time advances by one; the function may finish in that very instant *)
Tick(o, h) ==
  /\ Rest /\ ~hold /\ hold' = h /\ ccp' = ccp /\ now < MaxT /\ now' = now + 1
  /\ IF o = "none" THEN UNCHANGED <<gate, rdy>> ELSE Deliver(o)
  /\ tie' = (tie \/ (o # "none" /\ now' = T /\ timer = "armed"))
  /\ UNCHANGED <<scen, task, creq, cpend, seen, fut, timer, caller, gotAt, errs, fnEndAt, fnEnd, cancelAt>>
  /\ obs' = obs

(* the function finishes now, strictly between deadlines *)
FnFinish(o, h) ==
  /\ Rest /\ ~hold /\ hold' = h /\ ccp' = ccp /\ Deliver(o)
  /\ UNCHANGED <<scen, now, task, creq, cpend, seen, fut, timer, caller, gotAt, errs, fnEndAt, fnEnd, cancelAt, tie>>
  /\ obs' = obs

(* the caller task is cancelled while awaiting the result *)
CallerCancel ==
  /\ Rest /\ caller = "waiting" /\ cancelAt = Never
  /\ cancelAt' = now /\ hold' = FALSE
  /\ IF "caller_wake" \in rdy
       THEN \* the result future is already resolved, the caller has not resumed yet: the request is
            \* delivered when it does - and it must win over the result
            /\ ccp' = TRUE /\ UNCHANGED <<fut, rdy>>
       ELSE /\ ccp' = ccp /\ fut' = "cancelled" /\ rdy' = rdy \cup FutCallbacks
  /\ UNCHANGED <<scen, now, task, gate, creq, cpend, seen, timer, caller, gotAt, errs, fnEndAt, fnEnd, tie>>
  /\ obs' = obs

(* the environment lets the withheld caller resume *)
Release ==
  /\ Rest /\ hold /\ hold' = FALSE
  /\ UNCHANGED <<scen, now, task, gate, creq, cpend, seen, fut, timer, caller, gotAt, rdy, errs, fnEndAt, fnEnd,
                 cancelAt, tie, ccp>>
  /\ obs' = obs

Controlled == \/ \E o \in Outcomes \cup {"none"}, h \in BOOLEAN : Tick(o, h)
              \/ \E o \in Outcomes, h \in BOOLEAN : FnFinish(o, h)
              \/ CallerCancel \/ Release

(* obs is refreshed whenever the system comes to rest *)
Settle == /\ Quiet /\ obs # Cur /\ obs' = Cur
          /\ UNCHANGED <<T, obey, now, task, gate, creq, cpend, seen, fut, timer, caller, gotAt, rdy, errs,
                         fnEndAt, fnEnd, cancelAt, tie, hold, ccp>>

Next == Internal \/ Settle \/ Controlled
TickNone == Tick("none", FALSE)
ReleaseHeld == Release
Spec == Init /\ [][Next]_vars /\ WF_vars(Internal) /\ WF_vars(Settle) /\ WF_vars(TickNone) /\ WF_vars(ReleaseHeld)

-----------------------------------------------------------------------------
TypeOK == /\ task \in {"running", "val", "exc", "base", "cancelled"}
          /\ fut \in {"pending", "val", "exc", "base", "cancelled", "timeout"}
          /\ caller \in {"waiting", "val", "exc", "base", "cancelled", "timeout"}
          /\ timer \in {"armed", "cancelled", "fired"}
          /\ rdy \subseteq {"fn", "on_completion", "on_result", "caller_wake"}

OwnOutcome == IF fnEnd = "selfcancel" THEN "cancelled" ELSE fnEnd
Done == caller # "waiting" /\ Quiet /\ ~hold

(* C16: own result or exception if the function finishes before the deadline, otherwise a
   timeout error raised at the deadline, after which the function has been cancelled *)
OutcomeRight ==
  (Done /\ cancelAt = Never) =>
     IF fnEnd \in Outcomes /\ fnEndAt < T THEN caller = OwnOutcome /\ gotAt = fnEndAt
     ELSE IF tie THEN caller \in {OwnOutcome, "timeout"} /\ gotAt = T
     ELSE caller = "timeout" /\ gotAt = T /\ creq >= 1

(* C16: cancelling the caller cancels the function and propagates the cancellation *)
CallerCancelPropagates ==
  (Done /\ cancelAt # Never) =>
     /\ caller = "cancelled" /\ gotAt = cancelAt
     /\ (creq >= 1 \/ (task # "running" /\ fnEndAt <= cancelAt))

(* C16: if the function itself ends cancelled the caller sees cancellation *)
SelfCancelSeen ==
  (Done /\ fnEnd = "selfcancel" /\ creq = 0 /\ ~tie) => caller = "cancelled"

(* C16: nothing is left running once the call is over *)
NothingLeft ==
  Done => /\ (task # "running" => timer # "armed")                  \* timer disarmed once the function is over
          /\ (task = "running" => (creq >= 1 /\ ~obey /\ seen = 1))   \* only a function that swallowed the request

NoCallbackErrors == errs = 0

(* C16: the call always terminates *)
Termination == <>(caller # "waiting")
=============================================================================
