------------------------------- MODULE Values -------------------------------
(***************************************************************************)
(* haiway.state validation (property C05): which values conform to which   *)
(* annotations, and what is stored (the documented immutable conversion).   *)
(*                                                                         *)
(* Annotation terms   a == [k, xs, vs]  - kind, argument annotations,      *)
(*                                         literal values                   *)
(* Value terms        v == [k, v, xs]   - kind, scalar payload, elements    *)
(*   (dict elements are "pair" terms; all terms have the same record shape) *)
(*                                                                         *)
(* Conforms / Norm are written from the typing rules and haiway's          *)
(* documentation, not from validation.py.  Points where those two          *)
(* disagree are declared Contested: both verdicts are accepted there, but   *)
(* "no instance on rejection, faithful storage on acceptance" still holds. *)
(* The model has one step: Construct, from every (annotation, value) pair  *)
(* of the bounded term sets, to the verdict and the stored normal form.    *)
(***************************************************************************)
EXTENDS Naturals, Sequences, FiniteSets, TLC

CONSTANTS Depth,     \* 1 or 2: nesting depth of the enumerated annotation terms
          Bug

A(k) == [k |-> k, xs |-> <<>>, vs |-> <<>>]
A1(k, x) == [k |-> k, xs |-> <<x>>, vs |-> <<>>]
A2(k, x, y) == [k |-> k, xs |-> <<x, y>>, vs |-> <<>>]
V(k, p) == [k |-> k, v |-> p, xs |-> <<>>]
C(k, xs) == [k |-> k, v |-> 0, xs |-> xs]

(* annotations decided by a plain instance check: complex, range, UUID, date, datetime (a subclass of date), time,
   timedelta, timezone, Path, re.Pattern *)
Plain == {"complex", "range", "uuid", "date", "datetime", "time", "timedelta", "timezone", "path", "pattern"}
(* "proto": a runtime-checkable Protocol with one method.  Conformance belongs to the INSTANCE: "pclass" is an instance of
   a class that defines the method, "pinst" an instance of a plain class to which the method was attached as an instance
   attribute, "phollow" another instance of that same plain class without it *)
Scalars == {"none", "bool", "int", "float", "str", "bytes", "missing", "enumv", "state", "state2", "func", "cls",
            "pclass", "pinst", "phollow"} \cup Plain
Range(s) == {s[i] : i \in DOMAIN s}

(* a range is a Sequence of ints: where a sequence is wanted it stands for its elements (range(3) = 0, 1, 2) *)
El(v) == IF v.k = "range" THEN <<V("int", 0), V("int", 1), V("int", 2)>> ELSE v.xs

(* --------------------------- conformance --------------------------- *)
RECURSIVE Conforms(_, _)
Conforms(a, v) ==
  CASE a.k = "any"     -> TRUE
    [] a.k = "none"    -> v.k = "none"
    [] a.k = "missing" -> v.k = "missing"
    [] a.k = "bool"    -> v.k = "bool"
    [] a.k = "int"     -> v.k \in {"int", "bool"}            \* bool is a subclass of int
    [] a.k = "float"   -> v.k = "float"
    [] a.k = "str"     -> v.k = "str"
    [] a.k = "bytes"   -> v.k = "bytes"
    [] a.k \in Plain   -> v.k = a.k \/ (a.k = "date" /\ v.k = "datetime")
    [] a.k = "callable" -> v.k \in {"func", "cls"}              \* anything callable: a function, a class
    [] a.k = "type"    -> v.k = "cls"                           \* a class object
    [] a.k = "enum"    -> v.k = "enumv"
    [] a.k = "proto"   -> v.k \in {"pclass", "pinst"}
    [] a.k = "state"   -> v.k \in {"state", "state2"}        \* state2: an instance of a subclass
    [] a.k = "lit"     -> \E i \in DOMAIN a.vs : a.vs[i].k = v.k /\ a.vs[i].v = v.v
    [] a.k = "seq"     -> v.k \in {"list", "tuple", "range"} /\ \A i \in DOMAIN El(v) : Conforms(a.xs[1], El(v)[i])
    [] a.k = "vtuple"  -> v.k = "tuple" /\ \A i \in DOMAIN v.xs : Conforms(a.xs[1], v.xs[i])
    [] a.k \in {"set", "fset"} -> v.k \in {"set", "fset"} /\ \A i \in DOMAIN v.xs : Conforms(a.xs[1], v.xs[i])
    [] a.k = "map"     -> v.k = "dict" /\ \A i \in DOMAIN v.xs :
                             Conforms(a.xs[1], v.xs[i].xs[1]) /\ Conforms(a.xs[2], v.xs[i].xs[2])
    [] a.k = "tuple"   -> v.k = "tuple" /\ Len(v.xs) = Len(a.xs) /\ \A i \in DOMAIN v.xs : Conforms(a.xs[i], v.xs[i])
    [] a.k = "union"   -> \E i \in DOMAIN a.xs : Conforms(a.xs[i], v)
    [] a.k = "alias"   -> Conforms(a.xs[1], v)
    \* parametrised type aliases unfold with their argument: haiway.frozenlist[x] = tuple[x, ...];  Pair[x] = tuple[x, x]
    [] a.k = "flist"   -> Conforms([k |-> "vtuple", xs |-> a.xs, vs |-> <<>>], v)
    [] a.k = "pair"    -> Conforms([k |-> "tuple", xs |-> <<a.xs[1], a.xs[1]>>, vs |-> <<>>], v)
    \* Swapped[x, y] where  type Swapped[A, B] = Pair2[B, A]  and  type Pair2[A, B] = tuple[A, B]:  tuple[y, x]
    \* (the inner alias is given the outer alias's parameters in the other order - same names, other positions)
    [] a.k = "swap"    -> Conforms([k |-> "tuple", xs |-> <<a.xs[2], a.xs[1]>>, vs |-> <<>>], v)
    [] OTHER -> FALSE

(* where the documentation / typing rules and the library's practice may legitimately differ:
   - a Literal member that is ==-equal but differently typed (True for Literal[1])
   - a list offered for a fixed or variadic tuple (converted by the library)
   - str / bytes offered for Sequence[...]                                            *)
(* Contested: no element is outright non-conforming, and at least one is contested *)
RECURSIVE Contested(_, _)
Ok(a, v) == Conforms(a, v) \/ Contested(a, v)
Contested(a, v) ==
  CASE a.k = "lit" -> \E i \in DOMAIN a.vs : a.vs[i].v = v.v /\ a.vs[i].k # v.k /\ {a.vs[i].k, v.k} \subseteq {"int", "bool"}
    [] a.k \in {"tuple", "vtuple"} ->
         \/ (v.k \in {"list", "range"} /\ (a.k = "vtuple" \/ Len(El(v)) = Len(a.xs))
              /\ \A i \in DOMAIN El(v) : (Conforms(IF a.k = "vtuple" THEN a.xs[1] ELSE a.xs[i], El(v)[i])
                                        \/ Contested(IF a.k = "vtuple" THEN a.xs[1] ELSE a.xs[i], El(v)[i])))
         \/ (v.k = "tuple" /\ (a.k = "vtuple" \/ Len(v.xs) = Len(a.xs))
              /\ (\A i \in DOMAIN v.xs : Ok(IF a.k = "vtuple" THEN a.xs[1] ELSE a.xs[i], v.xs[i]))
              /\ \E i \in DOMAIN v.xs : Contested(IF a.k = "vtuple" THEN a.xs[1] ELSE a.xs[i], v.xs[i]))
    [] a.k = "seq" -> \/ v.k \in {"str", "bytes"}
                      \/ (v.k \in {"list", "tuple", "range"} /\ (\A i \in DOMAIN El(v) : Ok(a.xs[1], El(v)[i]))
                            /\ \E i \in DOMAIN El(v) : Contested(a.xs[1], El(v)[i]))
    [] a.k \in {"set", "fset"} -> v.k \in {"set", "fset"} /\ (\A i \in DOMAIN v.xs : Ok(a.xs[1], v.xs[i]))
                                    /\ \E i \in DOMAIN v.xs : Contested(a.xs[1], v.xs[i])
    [] a.k = "map" -> v.k = "dict"
                      /\ (\A i \in DOMAIN v.xs : Ok(a.xs[1], v.xs[i].xs[1]) /\ Ok(a.xs[2], v.xs[i].xs[2]))
                      /\ \E i \in DOMAIN v.xs : Contested(a.xs[1], v.xs[i].xs[1]) \/ Contested(a.xs[2], v.xs[i].xs[2])
    [] a.k = "union" -> \E i \in DOMAIN a.xs : Contested(a.xs[i], v)
    [] a.k = "alias" -> Contested(a.xs[1], v)
    [] a.k = "flist" -> Contested([k |-> "vtuple", xs |-> a.xs, vs |-> <<>>], v)
    [] a.k = "pair"  -> Contested([k |-> "tuple", xs |-> <<a.xs[1], a.xs[1]>>, vs |-> <<>>], v)
    [] a.k = "swap"  -> Contested([k |-> "tuple", xs |-> <<a.xs[2], a.xs[1]>>, vs |-> <<>>], v)
    [] OTHER -> FALSE

(* --------------------------- stored normal form --------------------------- *)
FirstAlt(a, v) == CHOOSE i \in DOMAIN a.xs : (Conforms(a.xs[i], v) \/ Contested(a.xs[i], v))
                     /\ \A j \in 1..(i - 1) : ~(Conforms(a.xs[j], v) \/ Contested(a.xs[j], v))
RECURSIVE Norm(_, _)
Norm(a, v) ==
  CASE a.k \in {"seq", "vtuple"} /\ v.k \in {"list", "tuple", "range"} -> C("tuple", [i \in DOMAIN El(v) |-> Norm(a.xs[1], El(v)[i])])
    [] a.k = "tuple" /\ v.k \in {"list", "tuple", "range"} /\ Len(El(v)) = Len(a.xs) ->
         C("tuple", [i \in DOMAIN El(v) |-> Norm(a.xs[i], El(v)[i])])
    [] a.k \in {"set", "fset"} /\ v.k \in {"set", "fset"} ->
         C("fset", [i \in DOMAIN v.xs |-> IF Bug = "set_keeps_raw" THEN v.xs[i] ELSE Norm(a.xs[1], v.xs[i])])
    [] a.k = "map" /\ v.k = "dict" ->
         C("dict", [i \in DOMAIN v.xs |-> C("pair", <<Norm(a.xs[1], v.xs[i].xs[1]), Norm(a.xs[2], v.xs[i].xs[2])>>)])
    [] a.k = "union" /\ (\E i \in DOMAIN a.xs : Conforms(a.xs[i], v) \/ Contested(a.xs[i], v)) ->
         Norm(a.xs[IF Bug = "union_last" THEN Len(a.xs) ELSE FirstAlt(a, v)], v)
    [] a.k = "alias" -> Norm(a.xs[1], v)
    [] a.k = "flist" -> Norm([k |-> "vtuple", xs |-> a.xs, vs |-> <<>>], v)
    [] a.k = "pair"  -> Norm([k |-> "tuple", xs |-> <<a.xs[1], a.xs[1]>>, vs |-> <<>>], v)
    [] a.k = "swap"  -> Norm([k |-> "tuple", xs |-> <<a.xs[2], a.xs[1]>>, vs |-> <<>>], v)
    [] OTHER -> v

(* --------------------------- bounded term sets --------------------------- *)
Int1 == V("int", 1)  StrA == V("str", 1)  StrBC == V("str", 2)  None == V("none", 0)  True == V("bool", 1)
ValLeaf == {None, V("bool", 0), True, V("int", 0), Int1, V("float", 15), StrA, StrBC, V("bytes", 1),
            V("missing", 0), V("enumv", 1), V("state", 1), V("state2", 1), V("func", 1), V("cls", 1),
            V("pclass", 1), V("pinst", 1), V("phollow", 1)}
            \cup {V(k, 1) : k \in Plain}
Elem == {Int1, StrA, None, True}                \* what containers hold
Keys == {StrA, StrBC, Int1}
Seqs(S) == {<<>>} \cup {<<x>> : x \in S} \cup {<<x, y>> : x \in S, y \in S}
Pairs == {C("pair", <<k, e>>) : k \in Keys, e \in Elem}
ValCont == {C("list", s) : s \in Seqs(Elem)} \cup {C("tuple", s) : s \in Seqs(Elem)}
             \cup {C("set", s) : s \in {<<>>, <<Int1>>, <<StrA>>, <<Int1, StrA>>, <<None, True>>}}
             \cup {C("fset", s) : s \in {<<>>, <<Int1>>, <<Int1, StrA>>}}
             \cup {C("dict", s) : s \in {<<>>} \cup {<<p>> : p \in Pairs}
                                        \cup {<<C("pair", <<StrA, e>>), C("pair", <<StrBC, f>>)>> : e \in Elem, f \in Elem}}
ValDeep == {C("tuple", <<C("list", <<Int1>>), C("list", <<>>)>>), C("tuple", <<C("dict", <<C("pair", <<StrA, Int1>>)>>)>>)}
             \cup {C("list", <<x>>) : x \in {C("list", <<Int1>>), C("tuple", <<StrA, Int1>>), C("dict", <<C("pair", <<StrBC, Int1>>)>>)}}
             \cup {C("dict", <<C("pair", <<StrA, x>>)>>) : x \in {C("list", <<Int1, StrA>>), C("set", <<Int1>>)}}
Vals == ValLeaf \cup ValCont \cup (IF Depth >= 2 THEN ValDeep ELSE {})

AnnLeaf == {A("none"), A("bool"), A("int"), A("float"), A("str"), A("bytes"), A("any"), A("missing"), A("enum"),
            A("state"), [k |-> "lit", xs |-> <<>>, vs |-> <<Int1, StrA>>], A("callable"), A("type"), A("proto")}
            \cup {A(k) : k \in Plain}
Small == {A("int"), A("str"), A("none"), A("bool")}
AnnCont == {A1(k, x) : k \in {"seq", "set", "fset", "vtuple", "alias", "flist", "pair"}, x \in Small}
             \cup {A1("tuple", x) : x \in Small} \cup {A2("tuple", x, y) : x \in Small, y \in Small}
             \cup {A2("swap", x, y) : x \in Small, y \in Small}
             \cup {A2("map", k, x) : k \in {A("str"), A("int")}, x \in Small}
             \cup {A2("union", x, y) : x \in Small \cup {A("missing")}, y \in Small \cup {A("float")}}
             \cup {A2("union", A("date"), A("none")), A2("union", A("callable"), A("none")), A1("seq", A("date")),
                   A2("union", A("proto"), A("none")),
                   A2("map", A("str"), A("path"))}
             \* unions with a parametrised container alternative (Optional[tuple[int, ...]] and the like)
             \cup {A2("union", x, y) : x \in {A1("vtuple", A("int")), A2("tuple", A("int"), A("str")), A1("fset", A("int")),
                                              A1("seq", A("str")), A1("set", A("int")), A2("map", A("str"), A("int"))},
                                       y \in {A("none"), A("str")}}
             \* unions with an alternative that is - or contains - a union typing cannot flatten (`type Number = int | float;
             \* x: Number | None`, `Sequence[int | None] | Sequence[str]`): the inner union's refusal is one more refusal
             \cup {A2("union", x, y) : x \in {A1("alias", A2("union", A("int"), A("float"))), A1("seq", A2("union", A("int"), A("none")))},
                                       y \in {A("none"), A1("seq", A("str"))}}
             \* ... and Missing admitted one level down (`type Maybe[T] = T | Missing; x: Maybe[str] | None`)
             \cup {A2("union", A1("alias", A2("union", A("str"), A("missing"))), A("none"))}
AnnDeep == {A1("seq", x) : x \in {A1("seq", A("int")), A2("tuple", A("str"), A("int")), A2("map", A("str"), A("int")),
                                  A2("union", A("int"), A("none"))}}
             \cup {A2("map", A("str"), x) : x \in {A1("seq", A("int")), A1("set", A("int")), A2("union", A("str"), A("none"))}}
             \cup {A2("union", x, y) : x \in {A1("seq", A("int")), A2("map", A("str"), A("none"))},
                                       y \in {A1("seq", A("none")), A("str"), A1("set", A("int"))}}
Anns == AnnLeaf \cup AnnCont \cup (IF Depth >= 2 THEN AnnDeep ELSE {})

(* --------------------------- the one-step model --------------------------- *)
VARIABLES ann, val, done, obs
vars == <<ann, val, done, obs>>
NoVal == V("nothing", 0)

Init == ann \in Anns /\ val \in Vals /\ done = FALSE /\ obs = [acc |-> "pending", stored |-> NoVal]

(* for trace validation: the pair comes from the recorded execution instead of the bounded term sets *)
InitAny == done = FALSE /\ obs = [acc |-> "pending", stored |-> NoVal]

Accept == done' = TRUE /\ obs' = [acc |-> "yes", stored |-> Norm(ann, val)] /\ UNCHANGED <<ann, val>>
Reject == done' = TRUE /\ obs' = [acc |-> "no", stored |-> NoVal] /\ UNCHANGED <<ann, val>>

Construct ==
  /\ ~done
  /\ IF Contested(ann, val) /\ ~Conforms(ann, val) THEN Accept \/ Reject
     ELSE IF Conforms(ann, val) /\ ~(Bug = "tuple_len_ignored") THEN Accept
     ELSE IF Bug = "tuple_len_ignored" /\ (Conforms(ann, val) \/ (ann.k = "tuple" /\ val.k = "tuple")) THEN Accept
     ELSE Reject
Next == Construct
Spec == Init /\ [][Next]_vars

-----------------------------------------------------------------------------
(* algebraic obligations on the oracle itself, checked on every enumerated pair *)
RECURSIVE Size(_)
Size(v) == IF v.xs = <<>> THEN 1 ELSE 1 + Len(v.xs)
Accepted == Conforms(ann, val) \/ Contested(ann, val)

(* C05: construction succeeds exactly when the value conforms *)
ExactlyConforming == done => ((obs.acc = "yes") => Accepted) /\ ((obs.acc = "no") => ~Conforms(ann, val))
(* C05: the stored value conforms too and storing is idempotent *)
NormConforms == Accepted => (Conforms(ann, Norm(ann, val)) \/ Contested(ann, Norm(ann, val)))
NormIdempotent == Accepted => Norm(ann, Norm(ann, val)) = Norm(ann, val)
(* C05: no element added, dropped, split or re-keyed *)
RECURSIVE SameShape(_, _)
SameShape(u, w) == /\ Len(u.xs) = Len(w.xs)
                   /\ (u.k \in Scalars => (u.k = w.k /\ u.v = w.v))
                   /\ \A i \in DOMAIN u.xs : SameShape(u.xs[i], w.xs[i])
Faithful == (done /\ obs.acc = "yes") =>
              SameShape(IF val.k = "range" /\ obs.stored.k # "range" THEN C("list", El(val)) ELSE val, obs.stored)
(* C05: containers are stored in their immutable form *)
RECURSIVE Frozen(_)
Frozen(v) == v.k \notin {"list", "set"} /\ \A i \in DOMAIN v.xs : Frozen(v.xs[i])
RECURSIVE HasAny(_)
HasAny(a) == a.k \in {"any", "callable", "type"} \/ \E i \in DOMAIN a.xs : HasAny(a.xs[i])
(* (what is accepted under Any is stored as given: nothing is known about it) *)
StoredImmutable == (done /\ obs.acc = "yes" /\ ~HasAny(ann)) => (val.xs = <<>> \/ Frozen(obs.stored))
(* a union accepts exactly what one of its alternatives accepts *)
UnionIsDisjunction == ann.k = "union" => (Conforms(ann, val) <=> \E i \in DOMAIN ann.xs : Conforms(ann.xs[i], val))
=============================================================================
