------------------------------ MODULE ScopeLife ------------------------------
(***************************************************************************)
(* Life cycle of ONE asynchronous haiway scope X entered by task P inside  *)
(* an outer scope (properties C02 and C08): entering (task group, then the *)
(* disposables concurrently), the body, and leaving (disposables           *)
(* concurrently, then the task group waits for / aborts spawned tasks,     *)
(* then metrics and state are restored) - with every fault the properties  *)
(* quantify over: each disposable may succeed, fail or suspend in          *)
(* __aenter__ and in __aexit__ (suspended ones are released by the         *)
(* environment in any order, with success or failure), the body returns,   *)
(* raises an Exception or a BaseException, a spawned task ends or fails,   *)
(* and P may be cancelled at every suspension point.                       *)
(*                                                                         *)
(* The record x holds the scope's state; Run(x) advances it through the    *)
(* steps that cannot suspend, so every state of the specification is a     *)
(* state in which the real task is blocked (at its own gate or inside the  *)
(* library) and the environment moves next.                                *)
(***************************************************************************)
EXTENDS Naturals, Sequences, FiniteSets, TLC

CONSTANTS ND,        \* number of disposables
          NC,        \* number of tasks the body may spawn
          Behaviours,\* subset of {"ok", "fail", "susp"} for enter and exit of each disposable
          Bug

D == 1..ND
Ch == 1..NC

VARIABLES cfg,   \* [D -> [en, ex]] behaviour of each disposable, chosen in Init
          esp,   \* the first disposable spawns task 1 into the scope at the start of its __aenter__ (chosen in Init)
          x,     \* the scope record, see InitX
          obs

vars == <<cfg, esp, x, obs>>

InitX == [ph |-> "pre",          \* pre | entering | rollback | body | exiting | waiting | post
          den |-> [i \in D |-> "none"],    \* none | entering | entered | failed | cancelled
          dex |-> [i \in D |-> "none"],    \* none | exiting | exited | failed | cancelled
          nen |-> [i \in D |-> 0], nex |-> [i \in D |-> 0],
          xarg |-> [i \in D |-> "unset"],  \* exception class handed to __aexit__
          ch |-> [u \in Ch |-> "unborn"],  \* unborn | run | done | failed | cancelled
          exc |-> "none",        \* how the body ended: none | return | E | BaseE | C
          intc |-> FALSE,        \* the body's C came from the task group (a spawned task failed)
          cause |-> "none",      \* why entering is rolled back: none | C | enter errors
          dC |-> FALSE,          \* cancellation hit while the disposables were being exited
          pendC |-> FALSE,       \* cancellation hit while waiting for spawned tasks
          lostC |-> FALSE,       \* ... but the group was already aborting (stdlib absorbs it)
          cancelled |-> FALSE,   \* P has been cancelled from outside (at most once)
          early |-> {},          \* ghost: spawned tasks that had already ended when P was cancelled
          started |-> FALSE,     \* the body started
          again |-> FALSE,       \* a second entering of the same scope object was attempted (and refused)
          reused |-> FALSE,      \* the same Disposables object went through a second scope (Again)
          out |-> "none"]        \* what left the block

Init == /\ cfg \in [D -> [en : Behaviours, ex : Behaviours]]
        /\ esp \in (IF ND >= 1 /\ NC >= 1 THEN BOOLEAN ELSE {FALSE})
        /\ x = InitX
        /\ obs = [ph |-> "pre", out |-> "none", restored |-> TRUE, body |-> <<0, 0>>,
                  d |-> [i \in D |-> <<0, 0, "unset">>], ch |-> [u \in Ch |-> "unborn"]]

Entering(r) == {i \in D : r.den[i] = "entering"}
Entered(r) == {i \in D : r.den[i] = "entered"}
EFailed(r) == {i \in D : r.den[i] = "failed"}
Exiting(r) == {i \in D : r.dex[i] = "exiting"}
XFailed(r) == {i \in D : r.dex[i] = "failed"}
Running(r) == {u \in Ch : r.ch[u] = "run"}
ChildErrs(r) == {u \in Ch : r.ch[u] = "failed"}

(* name of the error(s) raised by the disposables in `set`: "exit:2", or "exit:1+3" for a group *)
RECURSIVE Names(_, _)
Names(set, i) == IF i > ND THEN ""
                 ELSE IF i \in set
                   THEN ToString(i) \o (IF \E j \in set : j > i THEN "+" ELSE "") \o Names(set, i + 1)
                   ELSE Names(set, i + 1)
ErrName(kind, set) == kind \o ":" \o Names(set, 1)

(* start __aexit__(arg) on the disposables in `who` *)
StartExits(r, who, arg) ==
  [r EXCEPT !.dex = [i \in D |-> IF i \in who
                                   THEN (CASE cfg[i].ex = "ok" -> "exited" [] cfg[i].ex = "fail" -> "failed"
                                           [] OTHER -> "exiting")
                                   ELSE r.dex[i]],
            !.nex = [i \in D |-> IF i \in who THEN r.nex[i] + 1 ELSE r.nex[i]],
            !.xarg = [i \in D |-> IF i \in who THEN arg ELSE r.xarg[i]]]

AbortChildren(r) == [r EXCEPT !.ch = [u \in Ch |-> IF r.ch[u] = "run" THEN "cancelled" ELSE r.ch[u]]]

(* what finally leaves the block once nothing is pending (Appendix A, X4) *)
Outcome(r) ==
  LET groupC == \/ (r.exc = "C" /\ ~r.intc /\ ChildErrs(r) = {})  \* the group re-raises the body's cancellation
                \/ (r.pendC /\ ~r.lostC /\ Bug # "swallow_exit_cancel")
  IN IF groupC \/ r.dC THEN "C"
     ELSE IF XFailed(r) # {} /\ Bug # "single_cleanup_error_vanishes" THEN ErrName("exit", XFailed(r))
     ELSE IF XFailed(r) # {} /\ Cardinality(XFailed(r)) > 1 THEN ErrName("exit", XFailed(r))
     ELSE r.exc

RECURSIVE Run(_)
Run(r) ==
  CASE r.ph = "entering" ->
         IF Entering(r) # {} THEN r
         ELSE IF r.cause = "C" \/ EFailed(r) # {}
           THEN LET c == IF r.cause = "C" THEN "C" ELSE ErrName("enter", EFailed(r)) IN
                Run(StartExits([r EXCEPT !.ph = "rollback", !.cause = c],
                               IF Bug = "no_rollback" THEN {} ELSE Entered(r), c))
           ELSE [r EXCEPT !.ph = "body", !.started = TRUE]
    [] r.ph = "rollback" ->
         \* a cancellation that hit the rollback itself is what leaves the block, not the enter error
         \* ... and the task group is left with that failure: tasks a disposable spawned while entering are cancelled
         IF Exiting(r) # {} THEN r
         ELSE LET r2 == IF Bug = "rollback_awaits_members" THEN r ELSE AbortChildren(r) IN
              IF Running(r2) # {} THEN r2
              ELSE [r2 EXCEPT !.ph = "post", !.out = IF r.dC /\ Bug # "rollback_cancel_lost" THEN "C" ELSE r.cause]
    [] r.ph = "exiting" ->
         IF Exiting(r) # {} THEN r
         ELSE \* the task group is left with the failure in flight - the body's, or that of the disposables'
              \* exit (an error, or a cancellation that hit it): its remaining tasks are cancelled, not awaited
              LET failing == r.exc # "return" \/ (Bug # "exit_failure_awaits_members" /\ (r.dC \/ XFailed(r) # {}))
                  r2 == IF failing THEN AbortChildren(r) ELSE r IN
              Run([r2 EXCEPT !.ph = "waiting"])
    [] r.ph = "waiting" ->
         IF Running(r) # {} THEN r ELSE [r EXCEPT !.ph = "post", !.out = Outcome(r)]
    [] OTHER -> r

Project(r, restored) ==
  [ph |-> r.ph, out |-> r.out, restored |-> restored,
   \* inside the body: A = 2 from the scope itself; every disposable i yields B = i, so the one declared last wins
   \* - whatever the order in which their __aenter__ finished
   \* ... and over the B = 9 the scope was given explicitly (state yielded by disposables comes after the explicit state)
   body |-> IF r.ph = "body" THEN <<2, IF ND >= 1 THEN (IF Bug = "completion_order_state" /\ ND >= 2 THEN 1 ELSE ND) ELSE 9>> ELSE <<0, 0>>,
   d |-> [i \in D |-> <<r.nen[i], r.nex[i], r.xarg[i]>>], ch |-> r.ch]

Step(r) == /\ x' = Run(r) /\ cfg' = cfg /\ esp' = esp
           /\ obs' = Project(Run(r), IF Bug = "no_restore_on_failure" /\ Run(r).ph = "post" /\ Run(r).out \notin {"return", "E"}
                                       THEN FALSE ELSE TRUE)

-----------------------------------------------------------------------------
(* P enters the scope: group entered, every disposable's __aenter__ started *)
Enter ==
  /\ x.ph = "pre"
  /\ Step([x EXCEPT !.ph = "entering",
                    !.den = [i \in D |-> CASE cfg[i].en = "ok" -> "entered" [] cfg[i].en = "fail" -> "failed"
                                            [] OTHER -> "entering"],
                    !.nen = [i \in D |-> 1],
                    !.ch = [u \in Ch |-> IF esp /\ u = 1 THEN "run" ELSE "unborn"]])

(* a suspended __aenter__ is released and succeeds or fails *)
ReleaseEnter(i, how) ==
  /\ x.den[i] = "entering"
  /\ Step([x EXCEPT !.den[i] = IF how = "ok" THEN "entered" ELSE "failed"])

(* a suspended __aexit__ is released and succeeds or fails *)
ReleaseExit(i, how) ==
  /\ x.dex[i] = "exiting"
  /\ Step([x EXCEPT !.dex[i] = IF how = "ok" THEN "exited" ELSE "failed"])

(* the body ends: returns, raises an Exception, raises a BaseException *)
Leave(o) ==
  /\ x.ph = "body"
  /\ Step(StartExits([x EXCEPT !.ph = "exiting", !.exc = o], D, IF o = "return" THEN "none" ELSE o))

Spawn(u) ==
  /\ x.ph = "body" /\ x.ch[u] = "unborn" /\ \A w \in Ch : w < u => x.ch[w] # "unborn"
  /\ Step([x EXCEPT !.ch[u] = "run"])

ChildEnd(u) ==
  /\ x.ph \in {"body", "waiting"} /\ x.ch[u] = "run"
  /\ Step([x EXCEPT !.ch[u] = "done"])

(* a spawned task fails: the group cancels its siblings and the body (internal cancellation) *)
ChildFail(u) ==
  /\ x.ph \in {"body", "waiting"} /\ x.ch[u] = "run"
  /\ LET r1 == AbortChildren([x EXCEPT !.ch[u] = "failed"]) IN
     IF x.ph = "body"
       THEN Step(StartExits([r1 EXCEPT !.ph = "exiting", !.exc = "C", !.intc = TRUE], D, "C"))
       ELSE Step(r1)

(* P is cancelled from outside, at any suspension point of enter / rollback of a failed enter / body / exit *)
Cancel ==
  /\ ~x.cancelled /\ x.ph \in {"entering", "rollback", "body", "exiting", "waiting"}
  /\ LET r0 == [x EXCEPT !.cancelled = TRUE, !.early = {u \in Ch : x.ch[u] \in {"done", "failed", "cancelled"}}] IN
     CASE x.ph = "entering" ->
            Step([r0 EXCEPT !.cause = "C",
                            !.den = [i \in D |-> IF x.den[i] = "entering" THEN "cancelled" ELSE x.den[i]]])
       [] x.ph = "body" ->
            Step(StartExits([r0 EXCEPT !.ph = "exiting", !.exc = "C"], D, "C"))
       [] x.ph \in {"exiting", "rollback"} ->
            Step([r0 EXCEPT !.dC = TRUE,
                            !.dex = [i \in D |-> IF x.dex[i] = "exiting" THEN "cancelled" ELSE x.dex[i]]])
       [] OTHER ->   \* waiting for spawned tasks: they are aborted; if the group was already aborting
                     \* because one of them failed, asyncio's TaskGroup absorbs the request (stdlib corner)
            Step(AbortChildren([r0 EXCEPT !.pendC = TRUE, !.lostC = (ChildErrs(x) # {})]))

(* --- cancellation in the wake-up window ---------------------------------------------------------------------------
   The last thing P was waiting for happens (the last suspended __aenter__ / __aexit__ is released, the last spawned task
   ends) and P is cancelled BEFORE it runs again: what it awaited is complete, yet the await raises the cancellation.
   (When something else is still pending P is not about to wake: release and cancellation are then two ordinary steps.) *)
Hit(r) == [r EXCEPT !.cancelled = TRUE, !.early = {u \in Ch : r.ch[u] \in {"done", "failed", "cancelled"}}]

(* all __aenter__ have finished - successfully or not: the results are dropped, everything entered is exited with the
   cancellation, the block is left by it *)
ReleaseEnterLate(i, how) ==
  /\ ~x.cancelled /\ x.ph = "entering" /\ Entering(x) = {i}
  /\ Step(Hit([x EXCEPT !.den[i] = IF how = "ok" THEN "entered" ELSE "failed", !.cause = "C"]))

(* all __aexit__ have finished: the cancellation is what leaves the block (whatever they raised), the scope's tasks are
   cancelled, not awaited *)
ReleaseExitLate(i, how) ==
  /\ ~x.cancelled /\ x.ph \in {"exiting", "rollback"} /\ Exiting(x) = {i}
  /\ Step(Hit([x EXCEPT !.dex[i] = IF how = "ok" THEN "exited" ELSE "failed", !.dC = TRUE]))

(* the last spawned task has ended: nothing is left to cancel, the cancellation leaves the block (unless the group was
   already aborting after a failure - the stdlib corner of Cancel) *)
ChildEndLate(u) ==
  /\ ~x.cancelled /\ x.ph = "waiting" /\ Running(x) = {u}
  /\ Step(Hit([x EXCEPT !.ch[u] = "done", !.pendC = TRUE, !.lostC = (ChildErrs(x) # {})]))

(* the scope object is entered a SECOND time after the block was left: refused - no disposable is entered again (and so
   none is left un-exited), nothing changes *)
ReEnter ==
  /\ x.ph = "post" /\ ~x.again /\ ~x.reused
  /\ x' = [x EXCEPT !.again = TRUE] /\ UNCHANGED <<cfg, esp>>
  /\ obs' = obs

(* the same Disposables OBJECT is handed to a second scope once the first one is over - a retry loop around the scope,
   whatever the first attempt came to (entered and left, rolled back, cancelled).  This time nothing fails or suspends:
   every disposable is entered exactly once more and exited exactly once more, with no exception - nothing of the first
   attempt is carried over in the object *)
Again ==
  /\ ND >= 1 /\ x.ph = "post" /\ ~x.again /\ ~x.reused
  /\ x' = [x EXCEPT !.reused = TRUE]          \* (the counters of x are those of the first scope: EnterOnce / ExitOnce)
  /\ UNCHANGED <<cfg, esp>>
  /\ obs' = [obs EXCEPT !.d = [i \in D |-> <<obs.d[i][1] + 1, obs.d[i][2] + 1, "none">>]]

Next == \/ Enter \/ Cancel \/ ReEnter \/ Again
        \/ \E i \in D, how \in {"ok", "fail"} : ReleaseEnterLate(i, how) \/ ReleaseExitLate(i, how)
        \/ \E u \in Ch : ChildEndLate(u)
        \/ \E o \in {"return", "E", "BaseE"} : Leave(o)
        \/ \E i \in D, how \in {"ok", "fail"} : ReleaseEnter(i, how) \/ ReleaseExit(i, how)
        \/ \E u \in Ch : Spawn(u) \/ ChildEnd(u) \/ ChildFail(u)
Spec == Init /\ [][Next]_vars

-----------------------------------------------------------------------------
TypeOK == x.ph \in {"pre", "entering", "rollback", "body", "exiting", "waiting", "post"}

(* C02: whatever the exit path, the surrounding code sees the context it saw before *)
Restored == obs.restored

(* C02: the body's exception reaches the caller as the same object unless cleanup fails
   (or a cancellation arrives while leaving) *)
BodyExcIdentity ==
  (x.ph = "post" /\ x.started /\ XFailed(x) = {} /\ ~x.dC /\ ~x.pendC) => x.out = x.exc

(* C08: entered exactly once before the body starts *)
EnterOnce == /\ \A i \in D : x.nen[i] <= 1
             /\ x.started => \A i \in D : x.den[i] = "entered"
(* C08: exited exactly once, and exactly those whose __aenter__ returned *)
ExitOnce == /\ \A i \in D : x.nex[i] <= 1
            /\ x.ph = "post" => \A i \in D : (x.nex[i] = 1) = (x.den[i] = "entered")
(* C08: __aexit__ receives the body's exception details (or the reason of the rollback) *)
ExitArg == \A i \in D : x.nex[i] = 1 =>
             x.xarg[i] = (IF x.started THEN (IF x.exc = "return" THEN "none" ELSE x.exc) ELSE x.cause)
(* C08: if entering fails the body never runs *)
EnterFailureNoBody == (EFailed(x) # {} \/ x.cause # "none") => ~x.started
(* C08: an error raised by a disposable's cleanup reaches the caller instead of vanishing *)
SurfaceCleanup ==
  (x.ph = "post" /\ x.started /\ XFailed(x) # {} /\ ~x.dC /\ ~(x.pendC /\ ~x.lostC) /\ ~(x.exc = "C" /\ ~x.intc))
     => x.out = ErrName("exit", XFailed(x))
(* C07 (for this single scope): an external cancellation is not swallowed by leaving the scope *)
CancelNotLost ==
  (x.ph = "post" /\ x.cancelled /\ ~x.lostC) => x.out = "C"
(* C07 / C06: ... and the tasks spawned into the scope are cancelled too, not awaited *)
CancelAbortsMembers ==
  (x.ph = "post" /\ x.cancelled /\ ~x.lostC) => \A u \in Ch : x.ch[u] = "done" => u \in x.early
(* C06: a failed or cancelled enter leaves nothing behind either: tasks spawned while entering are cancelled *)
RollbackAbortsMembers == x.ph = "rollback" => Exiting(x) # {}
(* C06: when cleanup itself fails the remaining spawned tasks are cancelled rather than awaited *)
NoWaitAfterFailure == x.ph = "waiting" => (x.exc = "return" /\ ~x.dC /\ XFailed(x) = {})
(* C08 / C01: state yielded by the disposables is visible in the body, later declared ones winning *)
DisposableStateVisible == obs.ph = "body" => obs.body = <<2, IF ND >= 1 THEN ND ELSE 9>>
=============================================================================
